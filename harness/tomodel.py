"""to_model: from a machine BUILT by the library (MachineNode) to a labelled tree holding everything behaviour depends
on, for the translation-validation properties (C17, C18, C19).  The tree is emitted as a Coq term (Model/Generic.v)
and compared there; it is also the input of the trace comparison that validates the abstraction itself (two machines
with equal trees are run on the same event sequences with the same stub logic and must show the same traces)."""
from __future__ import annotations

import asyncio
import json
import signal
import zlib

from . import impl


def G(label, kids=()):
    return (str(label), list(kids))


def canon(v):
    def dflt(o):
        if callable(o):
            return "<callable %s>" % getattr(o, "__name__", type(o).__name__)
        return "<%s>" % type(o).__name__
    try:
        return json.dumps(v, sort_keys=True, ensure_ascii=True, default=dflt)
    except Exception as exc:  # noqa
        return "<unserialisable %s>" % type(exc).__name__


def g_action(a):
    return G("action", [G(a.type if isinstance(a.type, str) else canon(a.type)), G(canon(a.params))])


def g_guard(g):
    if g is None:
        return G("noguard")
    params = g.params
    if isinstance(params, dict) and getattr(g, "is_composite", False):
        params = {k: v for k, v in params.items() if k not in ("guards", "children")}
        params = params or None
    return G("guard", [G(g.type if isinstance(g.type, str) else canon(g.type)), G(canon(params)),
                       G("children", [g_guard(c) for c in (g.children or [])])])


def resolved(target_str, source):
    if target_str is None:
        return "<none>"
    from xstate_statemachine.resolver import resolve_target_state
    try:
        return resolve_target_state(target_str, source).id
    except Exception:  # noqa
        return "<unresolved:%s>" % (target_str,)


def g_trans(t):
    return G("trans", [G(t.event), G(resolved(t.target_str, t.source)), g_guard(t.guard_def),
                       G("actions", [g_action(a) for a in t.actions]),
                       G("reenter" if t.reenter else "noreenter"), G("forbidden" if t.forbidden else "allowed")])


def g_node(n, root_id):
    rel = n.id[len(root_id) + 1:] if n.id.startswith(root_id + ".") else ("<root>" if n.id == root_id else n.id)
    on_done = n.on_done
    if on_done is None:
        on_done = []
    elif not isinstance(on_done, (list, tuple)):
        on_done = [on_done]

    def delay_key(k):
        try:
            return (0, float(k))
        except Exception:  # noqa
            return (1, str(k))
    return G("state", [
        G(rel), G(n.type), G(canon(n.initial)), G(canon(n.history)),
        G(resolved(n.target_str, n) if n.type == "history" else "<n/a>"),
        G("entry", [g_action(a) for a in n.entry]), G("exit", [g_action(a) for a in n.exit]),
        G("on", [G(k, [g_trans(t) for t in ts]) for k, ts in sorted(n.on.items(), key=lambda kv: str(kv[0]))]),
        G("ondone", [g_trans(t) for t in on_done]),
        G("after", [G(canon(float(k)) if delay_key(k)[0] == 0 else str(k), [g_trans(t) for t in ts])
                    for k, ts in sorted(n.after.items(), key=lambda kv: delay_key(kv[0]))]),
        G("invoke", [G("invocation", [G(canon(i.id)), G(canon(i.src)), G(canon(i.input)),
                                      G("ondone", [g_trans(t) for t in i.on_done]), G("onerror", [g_trans(t) for t in i.on_error])])
                     for i in n.invoke]),
        G("tags", [G(t) for t in sorted(n.tags or [])]), G(canon(n.meta or {})), G(canon(n.output)),
        G("states", [g_node(c, root_id) for c in n.states.values()])])


def deep(machine):
    return G("machine", [G(machine.id), G(canon(getattr(machine, "initial_context", None))),
                         G(canon(getattr(machine, "max_iterations", None))), G(canon(getattr(machine, "machine_output", None))),
                         g_node(machine, machine.id)])


def esc(s):
    return s.replace('"', '""')


def to_coq(t):
    label, kids = t
    if not kids:
        return '(G "%s" [])' % esc(label)
    return '(G "%s" [%s])' % (esc(label), "; ".join(to_coq(k) for k in kids))


def diff_path(a, b, path=()):
    """first difference between two trees (python side, for the replay file)"""
    if a[0] != b[0]:
        return path, a[0][:200], b[0][:200]
    for i, (x, y) in enumerate(zip(a[1], b[1])):
        d = diff_path(x, y, path + (a[0][:30] + "#%d" % i,))
        if d:
            return d
    if len(a[1]) != len(b[1]):
        return path, "%d children" % len(a[1]), "%d children" % len(b[1])
    return None


def guard_loss(e, a):
    """is the generated guard `a` the source guard `e` with params and / or ALL operands of a composite DROPPED (at any depth) and
    nothing else changed?  That - and only that - is recorded finding F17; another type, other or re-ordered operands, a collapsed
    level of nesting is a different defect."""
    if e == a:
        return True
    if e[0] != "guard" or a[0] != "guard" or len(e[1]) != 3 or len(a[1]) != 3:
        return False
    (et, ep, ec), (at, ap, ac) = e[1], a[1]
    if et != at:
        return False
    if ap != ep and ap[0] != canon(None):
        return False
    if not ac[1]:
        return True
    return len(ac[1]) == len(ec[1]) and all(guard_loss(x, y) for x, y in zip(ec[1], ac[1]))


def all_diffs(a, b, path=(), out=None, limit=40):
    """every place where two trees differ (a guard that differs anywhere inside is reported once, at the guard)"""
    out = [] if out is None else out
    if len(out) >= limit:
        return out
    if a[0] != b[0]:
        out.append((path, a[0][:200], b[0][:200]))
        return out
    if a[0] == "guard" and a != b:
        out.append((path + ("guard",), canon_tree(a)[:200], canon_tree(b)[:200], guard_loss(a, b)))
        return out
    for i, (x, y) in enumerate(zip(a[1], b[1])):
        all_diffs(x, y, path + (a[0][:30] + "#%d" % i,), out, limit)
    if len(a[1]) != len(b[1]):
        out.append((path, "%d children" % len(a[1]), "%d children" % len(b[1])))
    return out


def canon_tree(t):
    return t[0] + ("(" + ",".join(canon_tree(k) for k in t[1]) + ")" if t[1] else "")


# ------------------------------------------------------------------ behaviour under stub logic
def names(machine):
    acts, guards, svcs, events = set(), set(), set(), set()
    from xstate_statemachine.actions import BUILTIN_ACTION_ALIASES

    def walk_guard(g):
        if g is None:
            return
        if getattr(g, "is_composite", False) or getattr(g, "is_state_in", False):
            for c in g.children or []:
                walk_guard(c)
        elif isinstance(g.type, str):
            guards.add(g.type)

    def walk_trans(t):
        for a in t.actions:
            if isinstance(a.type, str) and a.type not in BUILTIN_ACTION_ALIASES and not a.type.startswith("spawn_"):
                acts.add(a.type)
        walk_guard(t.guard_def)

    def walk(n):
        for a in list(n.entry) + list(n.exit):
            if isinstance(a.type, str) and a.type not in BUILTIN_ACTION_ALIASES and not a.type.startswith("spawn_"):
                acts.add(a.type)
        for k, ts in n.on.items():
            if k and "*" not in k:
                events.add(k)
            elif k.endswith(".*"):
                events.add(k[:-2] + ".zz")
            for t in ts:
                walk_trans(t)
        od = n.on_done
        for t in ([] if od is None else od if isinstance(od, (list, tuple)) else [od]):
            walk_trans(t)
        for ts in n.after.values():
            for t in ts:
                walk_trans(t)
        for i in n.invoke:
            if isinstance(i.src, str):
                svcs.add(i.src)
            for t in list(i.on_done) + list(i.on_error):
                walk_trans(t)
        for c in n.states.values():
            walk(c)
    walk(machine)
    return acts, guards, svcs, sorted(e for e in events if not e.startswith(("done.", "error.", "after.", "xstate.")))


def stub_logic(machine_names, log, engine="sync"):
    from xstate_statemachine import MachineLogic
    acts, guards, svcs, _ = machine_names

    def mk_act(name):
        def act(i, c, e, a):
            log.append(("act", name, getattr(e, "type", None), canon(getattr(a, "params", None))))
        if engine == "async":
            async def aact(i, c, e, a):
                act(i, c, e, a)
            return aact
        return act

    def mk_guard(name):
        def grd(c, e):
            v = zlib.crc32((name + "|" + str(getattr(e, "type", ""))).encode()) % 3 != 0
            log.append(("guard", name, v))
            return v
        return grd

    def mk_svc(name):
        def svc(i, c, e):
            log.append(("svc", name))
            return 1
        if engine == "async":
            async def asvc(i, c, e):
                log.append(("svc", name))
                return 1
            return asvc
        return svc
    return MachineLogic(actions={n: mk_act(n) for n in acts}, guards={n: mk_guard(n) for n in guards},
                        services={n: mk_svc(n) for n in svcs})


def rebind(machine, logic):
    """The same built machine with another MachineLogic (the structure is what is under test, not the bound logic)."""
    machine.logic = logic
    return machine


def trace_sync(machine, events):
    """Runs on the deterministic thread scheduler: timers never fire unless the harness lets time pass (it does not)."""
    from xstate_statemachine import SyncInterpreter
    from . import vthreads
    log = []
    rebind(machine, stub_logic(names(machine), log, "sync"))
    sched, uninstall = vthreads.install()
    out = []
    try:
        def main():
            it = SyncInterpreter(machine)
            try:
                it.start()
                if it.status != "running":
                    # a start that did not leave the interpreter running: what is left behind is not compared
                    out.append(("not-running-after-start", it.status))
                    return
                out.append(("cfg", tuple(sorted(it.current_state_ids)), canon(it.context), it.status))
                for ev in events:
                    try:
                        it.send(ev)
                    except Exception as exc:  # noqa
                        out.append(("exc", type(exc).__name__))
                    out.append(("cfg", tuple(sorted(it.current_state_ids)), canon(it.context), it.status))
            except Exception as exc:  # noqa
                out.append(("exc-start", type(exc).__name__))
            finally:
                try:
                    it.stop()
                except Exception:  # noqa
                    pass
        try:
            impl.with_timeout(5, main)
        except impl.Timeout:
            out.append(("TIMEOUT",))
    finally:
        signal.setitimer(signal.ITIMER_REAL, 0, 0)
        uninstall()
    return out, log


def trace_async(machine, events):
    from xstate_statemachine import Interpreter
    log = []
    rebind(machine, stub_logic(names(machine), log, "async"))
    out = []

    async def main():
        it = Interpreter(machine)
        try:
            await it.start()
            await impl.quiesce(it)
            if it.status != "running":
                out.append(("not-running-after-start", it.status))
                return
            out.append(("cfg", tuple(sorted(it.current_state_ids)), canon(it.context), it.status))
            for ev in events:
                try:
                    await it.send(ev)
                except Exception as exc:  # noqa
                    out.append(("exc", type(exc).__name__))
                await impl.quiesce(it)
                out.append(("cfg", tuple(sorted(it.current_state_ids)), canon(it.context), it.status))
        except Exception as exc:  # noqa
            out.append(("exc-start", type(exc).__name__))
        finally:
            try:
                await it.stop()
            except Exception:  # noqa
                pass
    loop = impl.VLoop()
    loop.set_exception_handler(lambda *a: None)
    timed_out = False
    try:
        try:
            impl.with_timeout(5, lambda: loop.run_until_complete(main()))
        except impl.Timeout:
            timed_out = True
            out.append(("TIMEOUT",))
    finally:
        signal.setitimer(signal.ITIMER_REAL, 0, 0)
        try:
            for t in asyncio.all_tasks(loop):
                t._log_destroy_pending = False
                t.cancel()
            if not timed_out:
                loop.run_until_complete(asyncio.sleep(0))
        except BaseException:  # noqa
            pass
        try:
            loop.close()
        except BaseException:  # noqa
            pass
    return out, log
