"""./check <property> [--tier quick|thorough] [--replay file]"""
import argparse
import importlib
import json
import os
import sys

from harness import core


def main():
    ap = argparse.ArgumentParser()
    ap.add_argument("pid")
    ap.add_argument("--tier", default=os.environ.get("VERIF_TIER", "quick"))
    ap.add_argument("--replay")
    ap.add_argument("--no-build", action="store_true")
    args = ap.parse_args()
    seed = int(os.environ.get("VERIF_SEED", "0") or 0)
    tier = args.tier if args.tier in ("quick", "thorough") else "quick"
    mod = importlib.import_module(f"harness.props.{args.pid.lower()}")
    if args.replay:
        payload = json.load(open(args.replay if os.path.isabs(args.replay) else os.path.join(core.ROOT, args.replay)))
        sys.exit(mod.replay(payload))
    rep = core.Report(args.pid, tier, seed, mod.LEVEL)
    build = core.coq_build() if not args.no_build else dict(gen={}, rc=0, failed=[], log="")
    proof = core.proof_status(args.pid, build) if os.path.exists(os.path.join(core.COQ, "Props", args.pid + ".v")) else None
    if proof is not None:
        rep.coverage.update(obligations=proof["obligations"], discharged=proof["discharged"],
                            checker_cmd="coq_makefile -f _CoqProject && make -k -j16 (full .vo build) ; coqc -Q coq XSM coq/Props/%s.v" % args.pid,
                            trusted_base=core.TRUSTED_BASE, theorems=proof["theorems"], axioms=proof["axioms"],
                            gen_status={k: (v or "ok") for k, v in build["gen"].items()},
                            proof_files=[proof["file"]] + proof["deps"])
    ctx = dict(tier=tier, seed=seed, build=build, proof=proof)
    mod.run(rep, ctx)
    rc = rep.finish()
    print(f"{args.pid}: {'VIOLATIONS' if rc else 'ok'} tier={tier} seed={seed} "
          f"obligations={rep.coverage.get('obligations')} discharged={rep.coverage.get('discharged')} "
          f"evaluations={rep.coverage.get('evaluations')} wall={rep.coverage.get('wall', '')}", flush=True)
    sys.exit(rc)


if __name__ == "__main__":
    main()
