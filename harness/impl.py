"""Implementation side of the correspondence: Recorder logic, observation
plugin, canonical (token) rendering of what the library did."""
from __future__ import annotations

import asyncio
import logging
import selectors
import signal
import sys

from harness.am import AM, BadParams

logging.disable(logging.CRITICAL)  # the library logs a lot; observation goes through CutHandler below
logging.getLogger("xstate_statemachine").propagate = False
logging.getLogger("xstate_statemachine").addHandler(logging.NullHandler())

STATUS = {"uninitialized": 0, "running": 1, "done": 2, "error": 3, "stopped": 4}
ERRS = {"ImplementationMissingError": 0, "StateNotFoundError": 1, "InvalidConfigError": 2, "NotSupportedError": 3}


def err_code(exc):
    return ERRS.get(type(exc).__name__, 100 + (sum(map(ord, type(exc).__name__)) % 50))


# token constructors
def TN(n): return ("N", int(n))
def TS(s): return ("S", str(s))
def TZ(z): return ("Z", int(z))


def tok_coq(t):
    from harness.core import cq
    if t[0] == "N":
        return "TN %d" % t[1]
    if t[0] == "Z":
        return "TZ (%d)%%Z" % t[1]
    return "TS %s" % cq(t[1])


def toks_coq(ts):
    return "[" + "; ".join(tok_coq(t) for t in ts) + "]"


class CutHandler(logging.Handler):
    """Classifies the library's ERROR records: bound hit (cut) or escaped error."""

    def __init__(self, rec):
        super().__init__(level=logging.ERROR)
        self.rec = rec

    def emit(self, record):
        fn = record.funcName
        if record.exc_info:
            if fn in ("_run_event_loop", "timer_thread") and record.levelno == logging.ERROR and record.exc_info[1] is not None:
                self.rec.log.append(("err", err_code(record.exc_info[1])))
            return
        if record.levelno != logging.ERROR:
            return
        if fn == "_process_event_queue":
            self.rec.log.append(("cut", 0))
        elif fn in ("_process_transient_transitions", "_settle_transient_transitions"):
            self.rec.log.append(("cut", 1))
        elif fn == "_run_event_loop":
            self.rec.log.append(("cut", 2))


class Rec:
    def __init__(self, am: AM):
        self.am = am
        self.log = []
        self.ids = am.index_by_id()
        self.tid_of = {}
        self.svc_calls = []
        self.clock = lambda: 0.0

    def now(self):
        return int(self.clock() + 1e-6)

    def cfg(self, interp):
        return sorted(self.ids[n.id] for n in interp._active_state_nodes)


def tag_of(ev):
    p = getattr(ev, "payload", None)
    if isinstance(p, dict):
        try:
            return int(p.get("tag", 0))
        except Exception:
            return 0
    return 0


def build_logic(am: AM, rec: Rec, engine="sync", sched=None):
    from xstate_statemachine import MachineLogic
    actions, guards, services = {}, {}, {}

    def scan_act(a):
        if a[0] == "mark":
            k = a[1]
            actions["m%d" % k] = lambda i, ctx, ev, ad, k=k: rec.log.append(("act", k, ev.type, tag_of(ev)))
        elif a[0] == "fail":
            k = a[1]

            def f(i, ctx, ev, ad, k=k):
                rec.log.append(("act", k, ev.type, tag_of(ev)))
                raise RuntimeError("fail %d" % k)
            actions["f%d" % k] = f
        elif a[0] == "del":
            k, v = a[1], a[2]

            def dl(i, ctx, ev, ad, k=k, v=v):
                rec.log.append(("act", k, ev.type, tag_of(ev)))
                ctx.pop("v%d" % v, None)
            actions["d%d_%d" % (k, v)] = dl
        elif a[0] == "slow":
            k, d = a[1], a[2]
            if engine == "async":
                async def sl(i, ctx, ev, ad, k=k, d=d):
                    rec.log.append(("act", k, ev.type, tag_of(ev)))
                    await asyncio.sleep(d / 1000.0)
                    rec.log.append(("clock", rec.now()))
                actions["s%d" % k] = sl
            else:
                def sl(i, ctx, ev, ad, k=k, d=d):
                    rec.log.append(("act", k, ev.type, tag_of(ev)))
                    if sched is not None:
                        sched.sleep(d)
                    rec.log.append(("clock", rec.now()))
                actions["s%d" % k] = sl

    def scan_guard(g):
        if g[0] == "raises":
            def r(ctx, ev, k=g[1]):
                raise RuntimeError("guard raises %d" % k)
            guards["r%d" % g[1]] = r
        elif g[0] in ("and", "or"):
            for x in g[1]:
                scan_guard(x)
        elif g[0] == "not":
            scan_guard(g[1])

    guards["ge"] = lambda ctx, ev, params: ctx.get("v%d" % params["v"], 0) >= params["z"]
    guards["pz"] = lambda ctx, ev, params: ctx.get("v0", 0) >= params
    for n in am.nodes:
        for a in n.entry + n.exit:
            scan_act(a)
    for t in am.all_trans():
        for a in t.actions:
            scan_act(a)
        if t.guard is not None:
            scan_guard(t.guard)
    for n in am.nodes:
        for inv in n.invoke:
            if not inv.src:
                continue
            name = "svc%d_%s" % (inv.src, inv.iid.replace(".", "_"))
            if getattr(inv, "machine", False) and engine == "async":
                # a child machine that takes inv.dur ms to reach its top-level final state; the parent's managing task
                # polls every 5 ms, so a child finishing 2 ms before a multiple of 5 is noticed exactly at inv.dur
                from xstate_statemachine import create_machine

                async def child_hello(i, ctx, ev, ad, inv=inv):
                    rec.svc_calls.append((inv.iid, {}))
                    rec.log.append(("svc", inv.iid))
                child_cfg = {"id": "child_" + inv.iid.replace(".", "_"), "initial": "run", "context": {},
                             "states": {"run": {"entry": ["child_hello"], "after": {str(max(1, inv.dur - 2)): "fin"}}, "fin": {"type": "final"}}}
                services[name] = create_machine(child_cfg, logic=MachineLogic(actions={"child_hello": child_hello}))
                continue
            if engine == "async":
                async def svc(i, ctx, ev, inv=inv):
                    rec.svc_calls.append((inv.iid, dict(ev.payload)))
                    rec.log.append(("svc", inv.iid))
                    await asyncio.sleep(inv.dur / 1000.0)
                    if not inv.ok:
                        raise RuntimeError("service %s failed" % inv.iid)
                    return inv.val
            else:
                def svc(i, ctx, ev, inv=inv):
                    rec.svc_calls.append((inv.iid, dict(ev.payload)))
                    rec.log.append(("svc", inv.iid))
                    if not inv.ok:
                        raise RuntimeError("service %s failed" % inv.iid)
                    return inv.val
            services[name] = svc
    return MachineLogic(actions=actions, guards=guards, services=services)


def make_plugin(rec: Rec, hook_faults=False):
    from xstate_statemachine import PluginBase

    def boom(what):
        if hook_faults:
            raise HookFault(what)

    class Obs(PluginBase):
        def on_event_received(self, interp, event):
            rec.log.append(("begin", event.type, tag_of(event)))
            rec.log.append(("clock", rec.now()))
            boom("on_event_received")

        def on_transition(self, interp, from_states, to_states, transition):
            tid = rec.tid_of.get(id(transition), 0)
            rec.log.append(("trans", tid, rec.cfg(interp)))
            boom("on_transition")

        def on_action_execute(self, interp, action):
            boom("on_action_execute")

        def on_guard_evaluated(self, interp, guard, event, result):
            boom("on_guard_evaluated")

        def on_interpreter_start(self, interp):
            rec.log.append(("started",))
            boom("on_interpreter_start")

        def on_interpreter_stop(self, interp):
            rec.log.append(("stopped",))
            boom("on_interpreter_stop")

        def on_action_error(self, interp, action, exc):
            p = getattr(action, "params", None)
            if isinstance(p, BadParams):
                rec.log.append(("acterr", p.k))
            else:
                t = action.type
                rec.log.append(("acterr", int(t[1:]) if t[1:].isdigit() else 0))
            boom("on_action_error")

        def on_done(self, interp, output):
            rec.log.append(("done", output))
            boom("on_done")

        def on_error(self, interp, error):
            rec.log.append(("fail",))
            boom("on_error")
    return Obs()


def index_transitions(am: AM, machine, rec: Rec):
    """Map the library's TransitionDefinition objects to the AM's tids by position."""
    def walk(node):
        yield node
        for c in node.states.values():
            yield from walk(c)
    by_id = {n.id: n for n in walk(machine)}
    for i, x in enumerate(am.nodes):
        node = by_id[am.sid(i)]
        for key, ts in x.on:
            lib = node.on.get(key, [])
            for t, lt in zip(ts, lib):
                rec.tid_of[id(lt)] = t.tid
        if x.ondone is not None and node.on_done is not None:
            rec.tid_of[id(node.on_done)] = x.ondone.tid
        for (delay, ts), lib in zip(x.after, node.after.values()):
            for t, lt in zip(ts, lib):
                rec.tid_of[id(lt)] = t.tid
        for inv, linv in zip(x.invoke, node.invoke):
            for t, lt in zip(inv.ondone, linv.on_done):
                rec.tid_of[id(lt)] = t.tid
            for t, lt in zip(inv.onerror, linv.on_error):
                rec.tid_of[id(lt)] = t.tid
    return by_id


class LSet(set):
    """The active-state set, reporting membership changes made one state at a time."""
    rec = None

    def add(self, x):
        self.rec.log.append(("enter", self.rec.ids[x.id]))
        super().add(x)

    def discard(self, x):
        if x in self:
            self.rec.log.append(("leave", self.rec.ids[x.id]))
        super().discard(x)


class HookFault(Exception):
    pass


def instrument(interp, rec: Rec, engine, hook_faults=False):
    ls = LSet(interp._active_state_nodes)
    ls.rec = rec
    interp._active_state_nodes = ls
    interp.use(make_plugin(rec, hook_faults))

    def sub(it):
        rec.log.append(("notify", rec.cfg(it)))
        if hook_faults:
            raise HookFault("subscriber")
    interp.subscribe(sub)
    emitted = set()
    for n in rec.am.nodes:
        for a in n.entry + n.exit:
            if a[0] == "emit":
                emitted.add(a[1])
    for t in rec.am.all_trans():
        for a in t.actions:
            if a[0] == "emit":
                emitted.add(a[1])
    for k in emitted:
        def typed(ev, k=k):
            rec.log.append(("emit", k, 0))
            if hook_faults:
                raise HookFault("listener")
        interp.on("EM%d" % k, typed)

    def wild(ev):
        rec.log.append(("emit", int(ev.type[2:]), 1))
        if hook_faults:
            raise HookFault("wildcard listener")
    interp.on("*", wild)
    orig_sched = interp._schedule_state_tasks
    orig_cancel = interp._cancel_state_tasks

    def sched(state):
        caller = sys._getframe(1).f_code.co_name
        rec.log.append(("sched", rec.ids[state.id], caller not in ("_enter_states",)))
        return orig_sched(state)
    interp._schedule_state_tasks = sched
    if engine == "sync":
        def cancel(state):
            rec.log.append(("cancel", rec.ids[state.id]))
            return orig_cancel(state)
    else:
        async def cancel(state):
            rec.log.append(("cancel", rec.ids[state.id]))
            return await orig_cancel(state)
    interp._cancel_state_tasks = cancel


_handlers = []


def attach_log_handler(rec):
    h = CutHandler(rec)
    for name in ("xstate_statemachine.sync_interpreter", "xstate_statemachine.interpreter",
                 "xstate_statemachine.base_interpreter"):
        lg = logging.getLogger(name)
        lg.addHandler(h)
        lg.setLevel(logging.ERROR)
    logging.disable(logging.WARNING)
    _handlers.append(h)
    return h


def detach_log_handler(h):
    for name in ("xstate_statemachine.sync_interpreter", "xstate_statemachine.interpreter",
                 "xstate_statemachine.base_interpreter"):
        logging.getLogger(name).removeHandler(h)
    logging.disable(logging.CRITICAL)


def flat_log(log, raw_rearm=False):
    out = []
    i = 0
    n = len(log)
    while i < n:
        o = log[i]
        if o[0] == "sched" and o[2] and not raw_rearm:
            # rollback re-arm iterates a set: canonicalise that run by sorting
            j = i
            run = []
            while j < n and log[j][0] == "sched" and log[j][2]:
                run.append(log[j][1])
                j += 1
            for s in sorted(run):
                out += [TS("sched"), TN(s)]
            i = j
            continue
        k = o[0]
        if k == "act":
            out += [TS("act"), TN(o[1]), TS(o[2]), TN(o[3])]
        elif k == "acterr":
            out += [TS("acterr"), TN(o[1])]
        elif k == "sched":
            out += [TS("sched"), TN(o[1])]
        elif k == "cancel":
            out += [TS("cancel"), TN(o[1])]
        elif k == "trans":
            out += [TS("trans"), TN(o[1]), TS("[")] + [TN(x) for x in o[2]] + [TS("]")]
        elif k == "notify":
            out += [TS("notify"), TS("[")] + [TN(x) for x in o[1]] + [TS("]")]
        elif k == "begin":
            out += [TS("begin"), TS(o[1]), TN(o[2])]
        elif k == "done":
            out += [TS("done")] + ([TS("none")] if o[1] is None else [TZ(o[1])])
        elif k == "cut":
            out += [TS("cut"), TN(o[1])]
        elif k == "err":
            out += [TS("err"), TN(o[1])]
        elif k == "can":
            out += [TS("can"), TN(1 if o[1] else 0)]
        elif k in ("enter", "leave"):
            out += [TS(k), TN(o[1])]
        elif k == "emit":
            out += [TS("emit"), TN(o[1]), TN(o[2])]
        elif k == "fail":
            out += [TS("fail")]
        elif k == "clock":
            out += [TS("clock"), TN(o[1])]
        elif k == "svc":
            out += [TS("svc"), TS(o[1])]
        elif k in ("started", "stopped"):
            out += [TS(k)]
        i += 1
    return out


def armed_owners(interp, rec):
    """owners (state indices, with multiplicity) of the timers / service tasks that are still armed"""
    owners = []
    tm = getattr(interp, "task_manager", None)
    if tm is not None:
        for owner, tasks in tm._tasks_by_owner.items():
            if owner in rec.ids:
                owners += [rec.ids[owner]] * sum(1 for t in tasks if not t.done())
    for key in getattr(interp, "_after_events", {}):
        owner = key.split("::")[0]
        if owner in rec.ids:
            owners.append(rec.ids[owner])
    return sorted(owners)


def flat_state(am: AM, interp, rec: Rec, queue_items, raw_rearm=False):
    out = [TS("cfg")] + [TN(x) for x in rec.cfg(interp)]
    out.append(TS("hist"))
    hist = {rec.ids[p]: [rec.ids[n.id] for n in l] for p, l in interp._history.items() if l}
    for p in sorted(hist):
        out += [TN(p), TS("[")] + [TN(x) for x in hist[p]] + [TS("]")]
    out.append(TS("ctx"))
    for v in range(4):
        out.append(TZ(interp.context.get("v%d" % v, 0)))
    out.append(TS("queue"))
    for ev in queue_items:
        out += [TS(ev.type), TN(tag_of(ev))]
    out += [TS("status"), TN(STATUS.get(interp.status, 9))]
    out.append(TS("output"))
    out += [TS("none")] if interp.output is None else [TZ(interp.output)]
    out.append(TS("armed"))
    out += [TN(x) for x in armed_owners(interp, rec)]
    out.append(TS("log"))
    out += flat_log(rec.log, raw_rearm)
    return out


def make_event(ev):
    from xstate_statemachine.events import Event, AfterEvent, DoneEvent
    ty, kind, tag = ev
    if kind == "plain":
        return Event(type=ty, payload={"tag": tag} if tag else {})
    if kind == "after":
        return AfterEvent(type=ty)
    return DoneEvent(type=ty, data=None, src=kind[1])


class Timeout(BaseException):
    """Raised from SIGALRM.  BaseException so that the library's own
    `except Exception` blocks cannot swallow the watchdog."""


_timed_out = [False]


def _alarm(signum, frame):
    _timed_out[0] = True
    raise Timeout()


def with_timeout(seconds, fn):
    """Run fn() under a repeating alarm (it keeps firing until fn returns or the
    Timeout escapes, in case some handler catches BaseException once)."""
    _timed_out[0] = False
    old = signal.signal(signal.SIGALRM, _alarm)
    signal.setitimer(signal.ITIMER_REAL, seconds, 0.2)
    try:
        r = fn()
        if _timed_out[0]:
            raise Timeout()
        return r
    finally:
        signal.setitimer(signal.ITIMER_REAL, 0, 0)
        signal.signal(signal.SIGALRM, old)


# --------------------------------------------------------------------------
# sync macro run
# --------------------------------------------------------------------------

def run_sync(am: AM, events, cfg_opts=None, seed_ctx=None, per_event=True, probe_can=False, hook_faults=False, raw_rearm=False):
    """start() then send() each event.  Returns list of token lists: the state after
    start and after each send (log is cumulative)."""
    from xstate_statemachine import create_machine, SyncInterpreter
    rec = Rec(am)
    snaps = []
    h = attach_log_handler(rec)
    sched = uninstall = None
    if needs_clock(am) or any(e[0] == "at" for e in events):
        from harness import vthreads
        sched, uninstall = vthreads.install()
        rec.clock = lambda: sched.clock
    try:
        try:
            machine = create_machine(am.to_config(**(cfg_opts or {})), logic=build_logic(am, rec, "sync", sched))
        except Exception as exc:
            return [[TS("create-error"), TN(err_code(exc))]]
        index_transitions(am, machine, rec)
        it = SyncInterpreter(machine)
        if seed_ctx:
            it.context.update(seed_ctx)
        instrument(it, rec, "sync", hook_faults)

        def snap():
            snaps.append(flat_state(am, it, rec, list(it._event_queue), raw_rearm))
        life = any(e[0] in ("start", "stop") for e in events)
        if not life:
            try:
                with_timeout(4, it.start)
            except Timeout:
                snaps.append([TS("TIMEOUT")])
                return snaps
            except Exception as exc:
                rec.log.append(("err", err_code(exc)))
            snap()
        for ev in events:
            if probe_can and ev[0] not in ("burst", "at", "start", "stop"):
                rec.log.append(("can", bool(it.can(make_event(ev)))))
            try:
                if ev[0] == "start":
                    with_timeout(4, it.start)
                    evs = []
                elif ev[0] == "stop":
                    with_timeout(4, it.stop)
                    evs = []
                elif ev[0] == "at":
                    with_timeout(4, lambda: sched.advance(ev[1]))
                    evs = ev[2]
                elif ev[0] == "burst":
                    evs = ev[1]
                else:
                    evs = [ev]
                if len(evs) == 1:
                    with_timeout(4, lambda: it.send(make_event(evs[0])))
                elif evs:
                    with_timeout(4, lambda: it.send_events([make_event(e) for e in evs]))
            except Timeout:
                snaps.append([TS("TIMEOUT")])
                return snaps
            except Exception as exc:
                rec.log.append(("err", err_code(exc)))
            if per_event:
                snap()
        if not per_event:
            snap()
        try:
            it.stop()
        except Exception:
            pass
        return snaps
    finally:
        if uninstall is not None:
            try:
                uninstall()
            except BaseException:
                pass
        detach_log_handler(h)


def needs_clock(am):
    return any(n.after or n.invoke or any(a[0] == "slow" for a in n.entry + n.exit) for n in am.nodes) or \
        any(a[0] == "slow" for t in am.all_trans() for a in t.actions)


# --------------------------------------------------------------------------
# async macro run on a virtual-time loop
# --------------------------------------------------------------------------

class VSelector(selectors.SelectSelector):
    def __init__(self, ref):
        super().__init__()
        self.ref = ref

    def select(self, timeout=None):
        ev = super().select(0)
        if not ev and timeout and timeout > 0:
            self.ref[0]._vt += timeout
        return ev


class VLoop(asyncio.SelectorEventLoop):
    def __init__(self):
        ref = [None]
        super().__init__(VSelector(ref))
        ref[0] = self
        self._vt = 0.0

    def time(self):
        return self._vt


async def quiesce(it, extra=3):
    """Wait until the interpreter's queue is drained (or it stopped consuming).  While the consumer is suspended
    inside a slow action virtual time must be allowed to pass, in steps much finer than the 1 ms grid."""
    idle = 0
    for _ in range(400000):
        task = it._event_loop_task
        processing = getattr(it, "_processing", False)
        busy = (not it._event_queue.empty() and it.status == "running" and task is not None and not task.done()) or processing
        if busy:
            idle = 0
        else:
            idle += 1
            if idle > extra:
                return
        await asyncio.sleep(0.00005 if processing else 0)


def run_async(am: AM, events, cfg_opts=None, seed_ctx=None, per_event=True, probe_can=False, hook_faults=False, raw_rearm=False):
    from xstate_statemachine import create_machine, Interpreter
    rec = Rec(am)
    snaps = []
    h = attach_log_handler(rec)

    async def main():
        try:
            machine = create_machine(am.to_config(**(cfg_opts or {})), logic=build_logic(am, rec, "async"))
        except Exception as exc:
            snaps.append([TS("create-error"), TN(err_code(exc))])
            return
        index_transitions(am, machine, rec)
        it = Interpreter(machine)
        if seed_ctx:
            it.context.update(seed_ctx)
        instrument(it, rec, "async", hook_faults)

        def snap():
            q = list(getattr(it._event_queue, "_queue", []))
            snaps.append(flat_state(am, it, rec, q, raw_rearm))
        life = any(e[0] in ("start", "stop", "start2") for e in events)
        if not life:
            try:
                await it.start()
            except Exception as exc:
                rec.log.append(("err", err_code(exc)))
            await quiesce(it)
            snap()
        for ev in events:
            if probe_can and ev[0] not in ("burst", "at", "start", "stop", "start2"):
                rec.log.append(("can", bool(it.can(make_event(ev)))))
            if ev[0] in ("start", "stop", "start2"):
                try:
                    if ev[0] == "start2":
                        # two concurrent start() calls: must behave like one
                        rs = await asyncio.gather(it.start(), it.start(), return_exceptions=True)
                        for r_ in rs:
                            if isinstance(r_, Exception):
                                raise r_
                    else:
                        await (it.start() if ev[0] == "start" else it.stop())
                except Exception as exc:
                    rec.log.append(("err", err_code(exc)))
                evs = []
            elif ev[0] == "at":
                # let virtual time pass a hair beyond t so that everything due at t has fired and been processed
                lp = asyncio.get_event_loop()
                await asyncio.sleep(max(0.0, ev[1] / 1000.0 + 0.0001 - lp.time()))
                await quiesce(it)
                evs = ev[2]
            elif ev[0] == "burst":
                evs = ev[1]
            else:
                evs = [ev]
            if len(evs) == 1:
                await it.send(make_event(evs[0]))
            elif evs:
                await it.send_events([make_event(e) for e in evs])
            await quiesce(it)
            if per_event:
                snap()
        if not per_event:
            snap()
        try:
            await it.stop()
        except Exception:
            pass

    loop = VLoop()
    rec.clock = lambda: loop.time() * 1000.0
    loop.set_exception_handler(lambda *a: None)
    timed_out = False
    try:
        try:
            with_timeout(3, lambda: loop.run_until_complete(main()))
        except Timeout:
            timed_out = True
            snaps.append([TS("TIMEOUT")])
    finally:
        signal.setitimer(signal.ITIMER_REAL, 0, 0)
        try:
            for t in asyncio.all_tasks(loop):
                t._log_destroy_pending = False
                t.cancel()
            if not timed_out:
                # (after a watchdog timeout a task may be spinning without ever
                #  suspending; running the loop again would never return)
                loop.run_until_complete(asyncio.sleep(0))
        except BaseException:
            pass
        try:
            loop.close()
        except BaseException:
            pass
        detach_log_handler(h)
    return snaps


# --------------------------------------------------------------------------
# pure API run
# --------------------------------------------------------------------------

def _fingerprint_machine(machine):
    out = []

    def walk(n):
        out.append((n.id, n.type, n.initial, sorted(n.tags), repr(n.meta), n.target_str, n.history,
                    [(k, [(t.event, t.target_str, t.guard, [a.type for a in t.actions], t.reenter, t.forbidden) for t in ts])
                     for k, ts in n.on.items()],
                    None if n.on_done is None else (n.on_done.event, n.on_done.target_str),
                    [(k, [(t.event, t.target_str) for t in ts]) for k, ts in n.after.items()],
                    [a.type for a in n.entry], [a.type for a in n.exit]))
        for c in n.states.values():
            walk(c)
    walk(machine)
    return repr(out)


def pure_action_token(a):
    t = a.type
    if t == "xstate.assign":
        return [TS("pbuiltin"), TN(4 if isinstance(a.params, BadParams) else 1)]
    if t == "xstate.raise":
        return [TS("pbuiltin"), TN(2)]
    if t == "xstate.emit":
        return [TS("pbuiltin"), TN(3)]
    num = "".join(ch for ch in t if ch.isdigit())
    return [TS("pact"), TN(int(num) if num else 0)]


def run_pure(am: AM, events, seed_ctx=None):
    """initial_transition, then transition() threaded through the returned snapshots.
    Returns (token lists, isolation problems)."""
    import copy
    import threading
    from xstate_statemachine import create_machine
    from xstate_statemachine.helpers import initial_transition, transition
    rec = Rec(am)
    problems = []
    try:
        machine = create_machine(am.to_config(context=seed_ctx), logic=build_logic(am, rec))
    except Exception as exc:
        return [[TS("create-error"), TN(err_code(exc))]], problems
    ids = am.index_by_id()

    def flat(snap, actions, exc):
        out = [TS("cfg")] + [TN(x) for x in sorted(ids[i] for i in snap.configuration)] if snap is not None else [TS("cfg")]
        out.append(TS("ctx"))
        for v in range(4):
            out.append(TZ((snap.context if snap is not None else {}).get("v%d" % v, 0)))
        st = {"active": 1, "done": 2, "error": 3}.get(snap.status, 9) if snap is not None else 9
        out += [TS("status"), TN(st), TS("output")]
        out += [TS("none")] if snap is None or snap.output is None else [TZ(snap.output)]
        out.append(TS("actions"))
        for a in actions:
            out += pure_action_token(a)
        if exc is not None:
            out += [TS("err"), TN(err_code(exc))]
        return out
    snaps = []
    fp0 = _fingerprint_machine(machine)
    threads0 = threading.active_count()
    try:
        snap, actions = initial_transition(machine)
    except Exception as exc:
        return [[TS("err"), TN(err_code(exc))]], problems
    snaps.append(flat(snap, actions, None))
    for ev in events:
        before = (set(snap.configuration), copy.deepcopy(snap.context), snap.status, snap.output)
        nlog = len(rec.log)
        try:
            nxt, actions = transition(machine, snap, make_event(ev))
            exc = None
        except Exception as e:
            nxt, actions, exc = None, [], e
        after = (set(snap.configuration), copy.deepcopy(snap.context), snap.status, snap.output)
        if before != after:
            problems.append("transition() changed the snapshot passed in: %r -> %r" % (before, after))
        if any(o[0] == "act" for o in rec.log[nlog:]):
            problems.append("transition() ran a user action: %r" % (rec.log[nlog:],))
        if exc is not None:
            snaps.append([TS("err"), TN(err_code(exc))])
            break
        snaps.append(flat(nxt, actions, None))
        snap = nxt
    if _fingerprint_machine(machine) != fp0:
        problems.append("the machine definition changed during pure calls")
    if threading.active_count() != threads0:
        problems.append("pure calls started a thread")
    return snaps, problems


# --------------------------------------------------------------------------
# snapshot / restore runs (K-snap, property C12)
# --------------------------------------------------------------------------

def flat_snapshot_dict(am: AM, d):
    ids = am.index_by_id()
    out = [TS("status"), TN(STATUS.get(d.get("status"), 9)), TS("ctx")]
    for v in range(4):
        out.append(TZ((d.get("context") or {}).get("v%d" % v, 0)))
    out.append(TS("cfg"))
    out += [TN(ids[i]) for i in d.get("configuration", [])]
    out.append(TS("output"))
    out += [TS("none")] if d.get("output") is None else [TZ(d["output"])]
    out.append(TS("hist"))
    hist = {ids[p]: [ids[x] for x in l] for p, l in (d.get("history") or {}).items() if l}
    for p in sorted(hist):
        out += [TN(p), TS("[")] + [TN(x) for x in hist[p]] + [TS("]")]
    return out


def run_restored(am: AM, engine, events, k, seed_ctx=None):
    """Run the first k operations, snapshot, restore into a FRESH interpreter over a freshly built machine, continue
    on both.  Returns dict(restored=[token lists], original=[token lists], problems=[...])."""
    import copy
    import json as _json
    from xstate_statemachine import create_machine, SyncInterpreter, Interpreter
    problems = []
    recA, recB = Rec(am), Rec(am)
    hA = attach_log_handler(recA)
    out = dict(restored=[], original=[], problems=problems)
    cls = SyncInterpreter if engine == "sync" else Interpreter

    async def amain():
        mA = create_machine(am.to_config(context=seed_ctx), logic=build_logic(am, recA, engine))
        index_transitions(am, mA, recA)
        A = cls(mA)
        instrument(A, recA, engine)

        async def call(x):
            if asyncio.iscoroutine(x):
                return await x
            return x

        async def op(it, rec, ev):
            evs = ev[1] if ev[0] == "burst" else [ev]
            try:
                if len(evs) == 1:
                    await call(it.send(make_event(evs[0])))
                else:
                    await call(it.send_events([make_event(e) for e in evs]))
            except Exception as exc:
                rec.log.append(("err", err_code(exc)))
            if engine == "async":
                await quiesce(it)

        def snapq(it):
            return list(it._event_queue) if engine == "sync" else list(getattr(it._event_queue, "_queue", []))
        try:
            await call(A.start())
        except Exception as exc:
            recA.log.append(("err", err_code(exc)))
        if engine == "async":
            await quiesce(A)
        for ev in events[:k]:
            await op(A, recA, ev)
        text = A.get_snapshot()
        try:
            d = _json.loads(text)
        except Exception as exc:
            problems.append("get_snapshot() is not valid JSON: %r" % exc)
            return
        persisted = A.get_persisted_snapshot()
        kept = copy.deepcopy(persisted)
        out["restored"].append(flat_snapshot_dict(am, d))
        # restore into a fresh interpreter over a freshly built machine
        mB = create_machine(am.to_config(context=seed_ctx), logic=build_logic(am, recB, engine))
        index_transitions(am, mB, recB)
        detach_log_handler(hA)
        hB = attach_log_handler(recB)
        try:
            try:
                B = cls.from_snapshot(text, mB)
            except Exception as exc:
                out["restored"].append([TS("restore-error")])
                problems.append("from_snapshot rejected a snapshot the library itself produced: %r" % exc)
                return
            re = B.get_persisted_snapshot()
            if _json.dumps(re, sort_keys=True, default=str) != _json.dumps(kept, sort_keys=True, default=str):
                problems.append("re-snapshotting the restored interpreter does not reproduce the snapshot: %s vs %s"
                                % (_json.dumps(re, sort_keys=True, default=str)[:300], _json.dumps(kept, sort_keys=True, default=str)[:300]))
            if B.context != d.get("context"):
                problems.append("restored context %r differs from the snapshot's %r" % (B.context, d.get("context")))
            instrument(B, recB, engine)
            if engine == "async":
                await B.start()
                await quiesce(B)
            out["restored"].append(flat_state(am, B, recB, snapq(B)))
            nA = len(recA.log)
            out["original"].append(flat_state(am, A, recA, snapq(A)))
            # (one log handler at a time: the library's ERROR records do not say which interpreter emitted them)
            for ev in events[k:]:
                await op(B, recB, ev)
                out["restored"].append(flat_state(am, B, recB, snapq(B)))
            detach_log_handler(hB)
            hA2 = attach_log_handler(recA)
            try:
                for ev in events[k:]:
                    await op(A, recA, ev)
                    out["original"].append(flat_state(am, A, recA, snapq(A)))
            finally:
                detach_log_handler(hA2)
            out["orig_log_offset"] = nA
            if _json.dumps(persisted, sort_keys=True, default=str) != _json.dumps(kept, sort_keys=True, default=str):
                problems.append("the snapshot object changed when the interpreter it was taken from kept running")
            # isolation between interpreters restored from ONE snapshot over ONE machine object (none of them instrumented: the
            # recorder's hooks replace the active set of the interpreter they are attached to): the first runs the continuation, the
            # idle second still holds the snapshot's state afterwards, and a third restore of the same text starts there too
            try:
                recC = Rec(am)
                mC = create_machine(am.to_config(context=seed_ctx), logic=build_logic(am, recC, engine))
                C1 = cls.from_snapshot(text, mC)
                C2 = cls.from_snapshot(text, mC)
                if engine == "async":
                    await C1.start()
                    await quiesce(C1)
                for ev in events[k:]:
                    await op(C1, recC, ev)
                twin = C2.get_persisted_snapshot()
                if _json.dumps(twin, sort_keys=True, default=str) != _json.dumps(kept, sort_keys=True, default=str):
                    problems.append("two interpreters were restored from one snapshot over one machine; the first ran %d more event(s) and the "
                                    "second, which did nothing, no longer holds the snapshot's state: %s vs %s"
                                    % (len(events[k:]), _json.dumps(twin, sort_keys=True, default=str)[:300], _json.dumps(kept, sort_keys=True, default=str)[:300]))
                third = cls.from_snapshot(text, mC).get_persisted_snapshot()
                if _json.dumps(third, sort_keys=True, default=str) != _json.dumps(kept, sort_keys=True, default=str):
                    problems.append("restoring the same snapshot text once more over the same machine, after an earlier restored interpreter had run "
                                    "%d more event(s), does not give the snapshot's state: %s vs %s"
                                    % (len(events[k:]), _json.dumps(third, sort_keys=True, default=str)[:300], _json.dumps(kept, sort_keys=True, default=str)[:300]))
                try:
                    await call(C1.stop())
                except Exception:
                    pass
            except Exception as exc:
                problems.append("re-reading / re-restoring the snapshot failed: %r" % exc)
            for it in (A, B):
                try:
                    await call(it.stop())
                except Exception:
                    pass
        finally:
            detach_log_handler(hB)
            logging.disable(logging.WARNING)

    loop = VLoop()
    loop.set_exception_handler(lambda *a: None)
    try:
        try:
            with_timeout(6, lambda: loop.run_until_complete(amain()))
        except Timeout:
            out["restored"].append([TS("TIMEOUT")])
    finally:
        signal.setitimer(signal.ITIMER_REAL, 0, 0)
        try:
            loop.close()
        except BaseException:
            pass
        detach_log_handler(hA)
    return out
