"""py2coq_tree: fail-closed translator for the STATE-TREE functions of the engine (tie T, second unit).

The functions named in SPECS are re-read from the current source under /repo on every build and emitted as Gallina over
the model's machine representation (coq/Model/Tree.v: a state is its index, `parent m s`, `children m s`, `kind_of m s`,
`depth m s`; the active set `self._active_state_nodes` is the list `v_C`, the history store `self._history` the
association list `v_H`) and the primitives of coq/Model/TreeLib.v.  Anything outside the grammar raises Untranslatable
with the offending line; the generated file then does not compile and every theorem that rests on it is unproved.

Reading of Python constructs (everything else is refused):
  types          StateNode -> nat ("node"), Optional[StateNode] -> option nat ("optnode"), list / set of StateNode -> list nat
                 ("nodes", sets as duplicate-free lists in insertion order), bool
  x.parent       parent m x            x.depth  depth m x        x.states.values()  children m x   (`x.states` as a test: non-empty)
  x.type == K    is_parallel / is_compound / is_history / is_atomic / is_final m x      x.is_final, x.is_atomic likewise
  x.history == "deep"   is_deep m x
  x.initial      n_initial (nd m x) - only in the test `x.initial and x.initial in x.states` (-> match) and `x.states[x.initial]`
  x.target_str   n_hist_default (nd m x): the RESOLVED default target; `self._resolve_state_by_target(v, x)` on it is the identity
                 (a target string that does not resolve and an absent one both make the source fall through)
  self.machine   0                     self._active_state_nodes  v_C       self._history.get(p.id)  hist_get v_H p
  self._history[p.id] = l              v_H := hist_set v_H p l  (the function then returns v_H)
  a is b, a == b (and negations)       Nat.eqb / opt_eqb      x is None / x is not None / truthiness of an Optional
  x in l         mem x l               a & b  inter a b       a or b  (opt_or / list_or)      e1 if c else e2
  comprehensions [v for v in l if c...] (list, set, generator argument)  -> filter
  any(c for v in l) -> existsb         next((v for v in l if c), None) -> find
  sorted(gen, key=lambda n: (n.depth, n.id)) -> sort_by (lt_depth_id m)     max(l, key=lambda n: n.depth) -> max_depth m l
  set(l) -> set_of l,  set() / [] -> nil,  [x] -> [x]
  l.append(x), s.add(x), l.reverse()
  self._is_descendant(a, b)            GenTree.is_descendant on the ids (the translated string test itself)
  self._get_ancestors(x), self._resolve_history_target(x)   the translated functions of this unit
  self.<f>(x) inside f                 recursion on explicit fuel (the function takes `fuel`; exhausted fuel returns false)
statements: assignment; `if` (a test that narrows an Optional becomes a `match`); `return`; `continue`;
  `for v in l` (fold_left over the assigned variables; a `return` inside makes the accumulator an option that short-cuts);
  `while <Optional var> [is not None] [and c]: ...` (a top-level Fixpoint on fuel = S (size m): parent chains of a
  well-formed machine are shorter, and exhausted fuel returns the variables as they are).
"""
from __future__ import annotations

import ast
import hashlib
import os
import textwrap

REPO_SRC = os.environ.get("XSM_REPO_SRC", "/repo/src/xstate_statemachine")


class Untranslatable(Exception):
    pass


COQTY = {"node": "nat", "optnode": "option nat", "nodes": "list nat", "bool": "bool", "hist": "list (nat * list nat)",
         "nat": "nat", "trn": "trans", "trns": "list trans", "trnss": "list (list trans)", "str": "string", "strs": "list string",
         "onmap": "list (string * list trans)", "otrn": "option trans", "inv": "invoke", "invs": "list invoke", "event": "event",
         "ids": "list nat", "cache": "unit", "decision": "on_done_decision", "descent": "descent_decision", "dispatch": "dispatch_decision"}
ELEM = {"nodes": "node", "trns": "trn", "trnss": "trns", "strs": "str", "invs": "inv"}
NIL = {"nodes": "(@nil nat)", "trns": "(@nil trans)", "ids": "(@nil nat)", "strs": "(@nil string)"}
KINDS = {"parallel": "is_parallel", "compound": "is_compound", "history": "is_history", "atomic": "is_atomic",
         "final": "is_final"}


def contains(stmts, kinds):
    for s in stmts:
        for n in ast.walk(s):
            if isinstance(n, kinds):
                return True
    return False


class TreeFn:
    def __init__(self, fdef, spec, src_name, known):
        self.fdef = fdef
        self.spec = spec
        self.src_name = src_name
        self.known = known          # coq names of functions of this unit already translated: pyname -> (coqname, argtypes, ret, needs)
        self.aux = []               # top-level Fixpoints for while loops
        self.nloop = 0
        self.ret = spec["ret"]
        self.coqname = spec["coqname"]
        self.recursive = spec.get("recursive", False)
        self.fuel = "fuel"          # name of the fuel variable in scope for recursive calls
        self.want = None            # element type wanted for an empty list literal (from the annotation of the assignment)
        self.known_params = {}
        self.known_recursive = set()

    def fail(self, node, why):
        raise Untranslatable(f"{self.src_name}:{getattr(node, 'lineno', '?')}: {why}: {ast.unparse(node)[:90]}")

    @staticmethod
    def v(name):
        return "v_" + name

    # ------------------------------------------------------------------ expressions
    def is_self_attr(self, e, attr):
        return isinstance(e, ast.Attribute) and isinstance(e.value, ast.Name) and e.value.id == "self" and e.attr == attr

    def expr(self, e, env):
        """-> (coq text, type)"""
        nk = "narrow:" + ast.dump(e)
        if nk in env:
            return env[nk]
        if isinstance(e, ast.Constant) and isinstance(e.value, str):
            if any(ord(c) > 126 or ord(c) < 32 for c in e.value):
                self.fail(e, "non-ASCII string constant")
            return '"' + e.value.replace('"', '""') + '"%string', "str"
        if isinstance(e, ast.Tuple) and e.elts and all(isinstance(x, ast.Constant) and isinstance(x.value, str) for x in e.elts):
            return "[" + "; ".join(self.expr(x, env)[0] for x in e.elts) + "]", "strs"
        if isinstance(e, ast.Name):
            if e.id in env:
                return self.v(e.id), env[e.id]
            if e.id == "TARGETLESS__":
                return "DTargetless", "dispatch"
            if e.id == "NOTFOUND__":
                return "DNotFound", "dispatch"
            if e.id == "INTERNAL__":
                return "DInternal", "dispatch"
            if e.id == "DNONE__":
                return "DescendNone", "descent"
            if e.id == "DERROR__":
                return "DescendError", "descent"
            if e.id == "COMPLETE__":
                return "DComplete", "decision"
            if e.id == "NOTHING__":
                return "DNothing", "decision"
            self.fail(e, "unknown name")
        if isinstance(e, ast.Call) and isinstance(e.func, ast.Name) and e.func.id == "EXTERNAL__" and len(e.args) == 1:
            a, ta = self.expr(e.args[0], env)
            if ta != "node":
                self.fail(e, "EXTERNAL of " + ta)
            return f"(DExternal {a})", "dispatch"
        if isinstance(e, ast.Call) and isinstance(e.func, ast.Name) and e.func.id == "RESOLVE__" and len(e.args) == 1:
            a, ta = self.expr(e.args[0], env)
            if ta != "trn":
                self.fail(e, "RESOLVE of " + ta)
            return f"(resolved_target {a})", "optnode"
        if isinstance(e, ast.Call) and isinstance(e.func, ast.Name) and e.func.id == "DESCEND__" and len(e.args) == 1:
            a, ta = self.expr(e.args[0], env)
            if ta != "nodes":
                self.fail(e, "DESCEND of " + ta)
            return f"(DescendInto {a})", "descent"
        if isinstance(e, (ast.DictComp, ast.SetComp)) and len(e.generators) == 1 and isinstance(e.generators[0].target, ast.Name):
            # {v.parent.id [: v] for v in l if v.parent is not None} -> the parents;  {v.id for v in l if v.parent is not None} -> those states
            g = e.generators[0]
            v = g.target.id
            key = e.key if isinstance(e, ast.DictComp) else e.elt
            it, tit = self.iterable(g.iter, env)
            if tit == "nodes" and len(g.ifs) == 1 and ast.unparse(g.ifs[0]) == f"{v}.parent is not None" \
                    and (not isinstance(e, ast.DictComp) or ast.unparse(e.value) == v):
                if ast.unparse(key) == f"{v}.parent.id":
                    return f"(parents_of m {it})", "nodes"
                if ast.unparse(key) == f"{v}.id" and isinstance(e, ast.SetComp):
                    return f"(with_parent m {it})", "nodes"
            if isinstance(e, ast.DictComp):
                self.fail(e, "dict comprehension")
        if isinstance(e, ast.Call) and isinstance(e.func, ast.Name) and e.func.id == "FIRE__" and len(e.args) == 1:
            a, ta = self.expr(e.args[0], env)
            if ta != "node":
                self.fail(e, "FIRE of " + ta)
            return f"(DFire {a})", "decision"
        if isinstance(e, ast.Constant):
            if e.value is None:
                return "(@None nat)", "optnode"
            if e.value is True or e.value is False:
                return ("true" if e.value else "false"), "bool"
            self.fail(e, "constant")
        if self.is_self_attr(e, "machine"):
            return "0", "node"
        if self.is_self_attr(e, "_active_state_nodes"):
            return "v_C", "nodes"
        if isinstance(e, ast.Attribute):
            # transition.source
            if isinstance(e.value, ast.Name) and env.get(e.value.id) == "trans":
                if e.attr == "source":
                    return self.v(e.value.id + "_source"), "node"
                self.fail(e, "attribute of a transition")
            recv, t = self.expr(e.value, env)
            if t == "event" and e.attr == "type":
                return f"(e_type {recv})", "str"
            if t == "trn":
                if e.attr == "forbidden":
                    return f"(t_forbidden {recv})", "bool"
                if e.attr == "reenter":
                    return f"(t_reenter {recv})", "bool"
                if e.attr == "target_str":
                    return f"(has_target {recv})", "bool"
                if e.attr == "event":
                    return f"(t_event {recv})", "str"
                if e.attr == "source":
                    return f"(t_src {recv})", "node"
                self.fail(e, "attribute of a transition")
            if t == "inv":
                if e.attr == "id":
                    return f"(i_id {recv})", "str"
                if e.attr == "on_done":
                    return f"(i_ondone {recv})", "trns"
                if e.attr == "on_error":
                    return f"(i_onerror {recv})", "trns"
                self.fail(e, "attribute of an invoke")
            if t != "node":
                self.fail(e, f"attribute of {t}")
            if e.attr == "initial":
                return f"(n_initial (nd m {recv}))", "optnode"
            if e.attr == "on":
                return f"(n_on (nd m {recv}))", "onmap"
            if e.attr == "on_done":
                return f"(n_ondone (nd m {recv}))", "otrn"
            if e.attr == "invoke":
                return f"(n_invoke (nd m {recv}))", "invs"
            if e.attr == "parent":
                return f"(parent m {recv})", "optnode"
            if e.attr == "depth":
                return f"(depth m {recv})", "nat"
            if e.attr == "is_final":
                return f"(is_final m {recv})", "bool"
            if e.attr == "is_atomic":
                return f"(is_atomic m {recv})", "bool"
            if e.attr == "states":
                return f"(children m {recv})", "nodes"      # only its truthiness / .values() is meaningful
            if e.attr == "target_str":
                return f"(n_hist_default (nd m {recv}))", "optnode"
            self.fail(e, "attribute")
        if isinstance(e, ast.List):
            if not e.elts:
                return NIL[self.want or "nodes"], (self.want or "nodes")
            items = [self.expr(x, env) for x in e.elts]
            if any(t != "node" for _, t in items):
                self.fail(e, "list of non-nodes")
            return "[" + "; ".join(c for c, _ in items) + "]", "nodes"
        if isinstance(e, ast.UnaryOp) and isinstance(e.op, ast.Not):
            return f"(negb {self.test(e.operand, env)})", "bool"
        if isinstance(e, ast.BoolOp):
            if isinstance(e.op, ast.Or) and len(e.values) == 2:
                a, ta = self.expr(e.values[0], env)
                b, tb = self.expr(e.values[1], env)
                if ta == "optnode" and tb == "node":
                    return f"(opt_or {a} {b})", "node"
                if ta == "nodes" and tb == "nodes":
                    return f"(list_or {a} {b})", "nodes"
            op = " && " if isinstance(e.op, ast.And) else " || "
            return "(" + op.join(self.test(x, env) for x in e.values) + ")", "bool"
        if isinstance(e, ast.IfExp):
            c = self.test(e.test, env)
            a, ta = self.expr(e.body, env)
            b, tb = self.expr(e.orelse, env)
            if ta != tb:
                self.fail(e, f"conditional expression of types {ta} / {tb}")
            return f"(if {c} then {a} else {b})", ta
        if isinstance(e, ast.BinOp) and isinstance(e.op, ast.Add):
            a, ta = self.expr(e.left, env)
            b, tb = self.expr(e.right, env)
            if ta == tb == "trns":
                return f"({a} ++ {b})", "trns"
            self.fail(e, "+ on " + ta)
        if isinstance(e, ast.BinOp) and isinstance(e.op, ast.BitAnd):
            a, ta = self.expr(e.left, env)
            b, tb = self.expr(e.right, env)
            if ta == tb == "nodes":
                return f"(inter {a} {b})", "nodes"
            self.fail(e, "& on non-sets")
        if isinstance(e, ast.Compare) and len(e.ops) == 1:
            return self.compare(e, env), "bool"
        if isinstance(e, (ast.ListComp, ast.SetComp, ast.GeneratorExp)):
            return self.comprehension(e, env), "nodes"
        if isinstance(e, ast.Subscript):
            # x.states[x.initial] under the matching test
            v, s = e.value, e.slice
            if isinstance(v, ast.Attribute) and v.attr == "states" and isinstance(s, ast.Attribute) and s.attr == "initial" \
                    and ast.dump(v.value) == ast.dump(s.value):
                key = "initof:" + ast.dump(v.value)
                if key in env:
                    return env[key], "node"
            if not isinstance(s, ast.Slice):
                a, ta = self.expr(v, env)
                b, tb = self.expr(s, env)
                if ta == "onmap" and tb == "str":
                    return f"(lookup_on {a} {b})", "trns"
            self.fail(e, "subscript")
        if isinstance(e, ast.Call):
            return self.call(e, env)
        self.fail(e, "expression")

    def compare(self, e, env):
        op = e.ops[0]
        left, right = e.left, e.comparators[0]
        neg = isinstance(op, (ast.IsNot, ast.NotEq, ast.NotIn))
        wrap = (lambda r: f"(negb {r})") if neg else (lambda r: r)
        # x.type == "kind", x.history == "deep"
        if isinstance(op, (ast.Eq, ast.NotEq)) and isinstance(left, ast.Attribute) and isinstance(right, ast.Constant) \
                and isinstance(right.value, str):
            recv, t = self.expr(left.value, env)
            if t != "node":
                a, ta = self.expr(left, env)
                if ta == "str":
                    return wrap(f"(String.eqb {a} {self.expr(right, env)[0]})")
                self.fail(e, "kind test on " + t)
            if left.attr == "type" and right.value in KINDS:
                return wrap(f"({KINDS[right.value]} m {recv})")
            if left.attr == "history" and right.value == "deep":
                return wrap(f"(is_deep m {recv})")
            self.fail(e, "string comparison")
        if isinstance(op, ast.Gt) and isinstance(left, ast.Name) and isinstance(right, ast.Name) \
                and env.get(left.id) == "nat" and env.get(right.id) == "nat":
            return f"(Nat.ltb {self.v(right.id)} {self.v(left.id)})"
        if isinstance(op, ast.Eq) and isinstance(left, ast.Name) and isinstance(right, ast.Name) \
                and env.get(left.id) == "nat" and env.get(right.id) == "nat":
            return f"(Nat.eqb {self.v(left.id)} {self.v(right.id)})"
        # len(l) > 1
        if isinstance(op, ast.Gt) and isinstance(left, ast.Call) and isinstance(left.func, ast.Name) and left.func.id == "len" \
                and len(left.args) == 1 and isinstance(right, ast.Constant) and right.value == 1:
            a, ta = self.expr(left.args[0], env)
            if ta in ("trns", "nodes"):
                return f"(Nat.ltb 1 (List.length {a}))"
        # event.src == inv.id
        if isinstance(op, (ast.Eq, ast.NotEq)) and isinstance(left, ast.Attribute) and left.attr == "src" \
                and isinstance(left.value, ast.Name) and env.get(left.value.id) == "event":
            b, tb = self.expr(right, env)
            if tb == "str":
                return wrap(f"(ev_src_eqb {self.v(left.value.id)} {b})")
        if isinstance(op, (ast.In, ast.NotIn)) and isinstance(left, ast.Attribute) and left.attr == "id":
            a, ta = self.expr(left.value, env)
            b, tb = self.expr(right, env)
            if ta == "node" and tb == "nodes":
                return wrap(f"(mem {a} {b})")
            self.fail(e, "id membership")
        if isinstance(op, (ast.In, ast.NotIn)):
            # id(t) in seen
            if isinstance(left, ast.Call) and isinstance(left.func, ast.Name) and left.func.id == "id" and len(left.args) == 1:
                a, ta = self.expr(left.args[0], env)
                b, tb = self.expr(right, env)
                if ta == "trn" and tb == "ids":
                    return wrap(f"(mem (t_id {a}) {b})")
            a, ta = self.expr(left, env)
            b, tb = self.expr(right, env)
            if ta == "str" and tb == "onmap":
                return wrap(f"(in_list {a} (map fst {b}))")
            if ta == "str" and tb == "strs":
                return wrap(f"(in_list {a} {b})")
            if ta == "node" and tb == "nodes":
                return wrap(f"(mem {a} {b})")
            self.fail(e, f"membership {ta} in {tb}")
        if isinstance(op, (ast.Is, ast.IsNot, ast.Eq, ast.NotEq)):
            a, ta = self.expr(left, env)
            b, tb = self.expr(right, env)
            if ta == tb == "node":
                return wrap(f"(Nat.eqb {a} {b})")
            if ta == tb == "str" and isinstance(op, (ast.Eq, ast.NotEq)):
                return wrap(f"(String.eqb {a} {b})")
            if {ta, tb} <= {"node", "optnode"}:
                a = a if ta == "optnode" else f"(Some {a})"
                b = b if tb == "optnode" else f"(Some {b})"
                return wrap(f"(opt_eqb {a} {b})")
            self.fail(e, f"comparison of {ta} and {tb}")
        self.fail(e, "comparison")

    def comprehension(self, e, env, want_elt_is_var=True):
        if len(e.generators) != 1:
            self.fail(e, "comprehension with several loops")
        g = e.generators[0]
        if not isinstance(g.target, ast.Name) or g.is_async:
            self.fail(e, "comprehension target")
        var = g.target.id
        it, ti = self.iterable(g.iter, env)
        env2 = dict(env)
        env2[var] = "node"
        if want_elt_is_var and not (isinstance(e.elt, ast.Name) and e.elt.id == var):
            self.fail(e, "comprehension element must be the loop variable")
        conds = [self.test(c, env2) for c in g.ifs]
        if not conds:
            return it
        return f"(filter (fun {self.v(var)} => {' && '.join(conds)}) {it})"

    def iterable(self, e, env):
        # x.states.values()
        if isinstance(e, ast.Call) and isinstance(e.func, ast.Attribute) and e.func.attr == "values" and not e.args \
                and isinstance(e.func.value, ast.Attribute) and e.func.value.attr == "states":
            recv, t = self.expr(e.func.value.value, env)
            if t != "node":
                self.fail(e, "states of " + t)
            return f"(children m {recv})", "nodes"
        # x.after.values()
        if isinstance(e, ast.Call) and isinstance(e.func, ast.Attribute) and e.func.attr == "values" and not e.args \
                and isinstance(e.func.value, ast.Attribute) and e.func.value.attr == "after":
            recv, t = self.expr(e.func.value.value, env)
            if t != "node":
                self.fail(e, "after of " + t)
            return f"(map snd (n_after (nd m {recv})))", "trnss"
        c, t = self.expr(e, env)
        if t not in ELEM:
            self.fail(e, "iteration over " + t)
        return c, t

    def lambda_is(self, lam, shape):
        """key=lambda n: n.depth  /  key=lambda n: (n.depth, n.id)"""
        if not isinstance(lam, ast.Lambda) or len(lam.args.args) != 1:
            return False
        n = lam.args.args[0].arg
        def attr(x, a):
            return isinstance(x, ast.Attribute) and x.attr == a and isinstance(x.value, ast.Name) and x.value.id == n
        if shape == "depth":
            return attr(lam.body, "depth")
        if shape == "negdepth_id":
            b = lam.body
            return isinstance(b, ast.Tuple) and len(b.elts) == 2 and isinstance(b.elts[0], ast.UnaryOp) \
                and isinstance(b.elts[0].op, ast.USub) and attr(b.elts[0].operand, "depth") and attr(b.elts[1], "id")
        def srcdepth(x):
            return isinstance(x, ast.Attribute) and x.attr == "depth" and attr(x.value, "source")
        if shape == "src_depth":
            return srcdepth(lam.body)
        if shape == "neg_src_depth":
            return isinstance(lam.body, ast.UnaryOp) and isinstance(lam.body.op, ast.USub) and srcdepth(lam.body.operand)
        if shape == "depth_id":
            return isinstance(lam.body, ast.Tuple) and len(lam.body.elts) == 2 and attr(lam.body.elts[0], "depth") \
                and attr(lam.body.elts[1], "id")
        return False

    def call(self, e, env):
        f = e.func
        kw = {k.arg: k.value for k in e.keywords}
        if isinstance(f, ast.Name):
            if f.id == "bool" and len(e.args) == 1 and not kw:
                return self.test(e.args[0], env), "bool"
            if f.id == "getattr" and len(e.args) == 3 and not kw and isinstance(e.args[1], ast.Constant) and isinstance(e.args[1].value, str) \
                    and isinstance(e.args[2], ast.Constant) and e.args[2].value is None and isinstance(e.args[0], ast.Name) \
                    and env.get(e.args[0].id) == "inv":
                # getattr(invocation, "<field>", None): an InvokeDefinition always has the field; the None default reads like the empty list
                return self.expr(ast.Attribute(value=e.args[0], attr=e.args[1].value, ctx=ast.Load()), env)
            if f.id == "set" and not kw:
                if not e.args:
                    return "(@nil nat)", "nodes"
                a, ta = self.expr(e.args[0], env)
                if ta == "nodes" and len(e.args) == 1:
                    return f"(set_of {a})", "nodes"
            if f.id == "any" and len(e.args) == 1 and not kw and isinstance(e.args[0], ast.GeneratorExp):
                g = e.args[0]
                if len(g.generators) == 1 and isinstance(g.generators[0].target, ast.Name) and not g.generators[0].ifs:
                    var = g.generators[0].target.id
                    it, tit = self.iterable(g.generators[0].iter, env)
                    env2 = dict(env)
                    env2[var] = ELEM[tit]
                    return f"(existsb (fun {self.v(var)} => {self.test(g.elt, env2)}) {it})", "bool"
            if f.id == "next" and len(e.args) == 2 and not kw and isinstance(e.args[0], ast.GeneratorExp) \
                    and isinstance(e.args[1], ast.Constant) and e.args[1].value is None:
                g = e.args[0]
                if len(g.generators) == 1 and isinstance(g.generators[0].target, ast.Name) \
                        and isinstance(g.elt, ast.Name) and g.elt.id == g.generators[0].target.id:
                    var = g.generators[0].target.id
                    it, _ = self.iterable(g.generators[0].iter, env)
                    env2 = dict(env)
                    env2[var] = "node"
                    conds = [self.test(c, env2) for c in g.generators[0].ifs] or ["true"]
                    return f"(find (fun {self.v(var)} => {' && '.join(conds)}) {it})", "optnode"
            if f.id == "list" and len(e.args) == 1 and not kw:
                a, ta = self.expr(e.args[0], env)
                if ta == "nodes":
                    return a, "nodes"
            if f.id == "_passes" and len(e.args) == 1 and not kw and self.spec.get("guard_oracle"):
                a, ta = self.expr(e.args[0], env)
                if ta == "trn":
                    return f"(gpass {a})", "bool"
            if f.id == "isinstance" and len(e.args) == 2 and not kw and isinstance(e.args[0], ast.Name) \
                    and env.get(e.args[0].id) == "event" and isinstance(e.args[1], ast.Name):
                if e.args[1].id == "AfterEvent":
                    return f"(is_after_event {self.v(e.args[0].id)})", "bool"
                if e.args[1].id == "DoneEvent":
                    return f"(is_done_event {self.v(e.args[0].id)})", "bool"
            if f.id == "sorted" and len(e.args) == 1 and set(kw) == {"key"} and self.lambda_is(kw["key"], "negdepth_id"):
                a, ta = self.expr(e.args[0], env)
                if ta == "nodes":
                    return f"(sort_by (lt_negdepth_id m) {a})", "nodes"
            if f.id == "max" and len(e.args) == 1 and set(kw) == {"key"} and self.lambda_is(kw["key"], "src_depth") \
                    and ("nonempty:" + ast.dump(e.args[0])) in env:
                hd, tl = env["nonempty:" + ast.dump(e.args[0])]
                return f"(py_max_by (fun t_ => depth m (t_src t_)) {hd} {tl})", "trn"
            if f.id == "sorted" and len(e.args) == 1 and set(kw) == {"key", "reverse"} and self.lambda_is(kw["key"], "depth_id") \
                    and isinstance(kw["reverse"], ast.Constant) and kw["reverse"].value is True:
                a, ta = self.expr(e.args[0], env)
                if ta == "nodes":
                    return f"(rev (sort_by (lt_depth_id m) {a}))", "nodes"
            if f.id == "sorted" and len(e.args) == 1 and set(kw) == {"key"} and self.lambda_is(kw["key"], "depth_id"):
                a, ta = self.expr(e.args[0], env)
                if ta == "nodes":
                    return f"(sort_by (lt_depth_id m) {a})", "nodes"
            if f.id == "max" and len(e.args) == 1 and set(kw) == {"key"} and self.lambda_is(kw["key"], "depth"):
                a, ta = self.expr(e.args[0], env)
                if ta == "nodes":
                    return f"(max_depth m {a})", "optnode"
            self.fail(e, "call")
        if isinstance(f, ast.Attribute) and isinstance(f.value, ast.Name) and f.value.id == "self" and f.attr in self.known and kw:
            # keyword arguments of a translated function: put them in the order of its parameters
            names = self.known_params.get(f.attr, [])
            if len(e.args) + len(kw) != len(names) or any(k not in names[len(e.args):] for k in kw):
                self.fail(e, "keyword arguments")
            e = ast.Call(func=f, args=list(e.args) + [kw[n] for n in names[len(e.args):]], keywords=[])
            kw = {}
        if isinstance(f, ast.Attribute) and isinstance(f.value, ast.Name) and f.value.id == "self" and not kw:
            name = f.attr
            args = [((self.v(a.id + "_source"), "trans") if isinstance(a, ast.Name) and env.get(a.id) == "trans" else self.expr(a, env))
                    for a in e.args]
            if name == "_matching_descriptors" and len(args) == 2 and args[0][1] == "onmap" and args[1][1] == "str":
                return f"(matching_descriptors (map fst {args[0][0]}) {args[1][0]})", "strs"
            if name == "_is_descendant" and len(args) == 2 and args[0][1] == "node" and args[1][1] in ("node", "optnode"):
                b = f"(Some (id_of m {args[1][0]}))" if args[1][1] == "node" else f"(option_map (id_of m) {args[1][0]})"
                return f"(is_descendant (id_of m {args[0][0]}) {b})", "bool"
            if name == "_resolve_state_by_target" and len(args) == 2 and args[0][1] in ("optnode", "node") \
                    and args[1][1] == "node" and args[0][0].startswith("v_"):
                return (args[0][0] if args[0][1] == "optnode" else f"(Some {args[0][0]})"), "optnode"
            if name == self.fdef.name:
                if not self.recursive:
                    self.fail(e, "unexpected recursion")
                tys = [t for _, t in self.spec["params"]]
                if [t for _, t in args] != tys:
                    self.fail(e, "recursive call argument types")
                return f"({self.coqname} {self.fuel} m {self.ctx_args()}{' '.join(c for c, _ in args)})", self.ret
            if name in self.known:
                cname, ptys, rty, needs = self.known[name]
                args = [(c, t) for c, t in args if t != "cache"]
                if [t for _, t in args] != ptys:
                    self.fail(e, f"argument types of {name}")
                extra = "".join(x + " " for x in needs)
                fuel = "(S (size m)) " if name in self.known_recursive else ""
                return f"({cname} {fuel}m {extra}{' '.join(c for c, _ in args)})", rty
            self.fail(e, "method call")
        if isinstance(f, ast.Attribute) and f.attr == "get" and isinstance(f.value, ast.Attribute) and f.value.attr == "states" \
                and len(e.args) == 1 and not kw and isinstance(e.args[0], ast.Attribute) and e.args[0].attr == "initial" \
                and ast.dump(e.args[0].value) == ast.dump(f.value.value):
            recv, tr = self.expr(f.value.value, env)
            if tr == "node":
                return f"(n_initial (nd m {recv}))", "optnode"
        if isinstance(f, ast.Attribute) and f.attr == "startswith" and len(e.args) == 1 and not kw:
            recv, tr = self.expr(f.value, env)
            a, ta = self.expr(e.args[0], env)
            if tr == "str" and ta == "strs":
                return f"(startswith_any {recv} {a})", "bool"
            if tr == "str" and ta == "str":
                return f"(startswith {recv} {a})", "bool"
        if isinstance(f, ast.Attribute) and f.attr == "get" and self.is_self_attr(f.value, "_history") and len(e.args) == 1 \
                and isinstance(e.args[0], ast.Attribute) and e.args[0].attr == "id" and not kw:
            p, tp = self.expr(e.args[0].value, env)
            if tp == "node":
                return f"(hist_get v_H {p})", "nodes"
        self.fail(e, "call")

    def ctx_args(self):
        return "".join(x + " " for x in self.spec.get("needs", []))

    def test(self, e, env):
        # x.initial and x.initial in x.states is handled by the If statement (needs a binder)
        c, t = self.expr(e, env)
        if t == "bool":
            return c
        if t in ("optnode", "otrn"):
            return f"(is_some {c})"
        if t in ("nodes", "trns", "strs", "ids", "invs"):
            return f"(truthy_list {c})"
        self.fail(e, f"truthiness of {t}")

    # ------------------------------------------------------------------ narrowing tests
    def narrow(self, test, env):
        """`x is not None [and rest]`, `x [and rest]` with x an Optional variable -> (x, True, rest)
           `x is None`, `not x` -> (x, False, None)"""
        def optvar(n):
            return isinstance(n, ast.Name) and env.get(n.id) == "optnode"
        def pos(n):
            if optvar(n):
                return n.id
            if isinstance(n, ast.Compare) and len(n.ops) == 1 and isinstance(n.ops[0], ast.IsNot) and optvar(n.left) \
                    and isinstance(n.comparators[0], ast.Constant) and n.comparators[0].value is None:
                return n.left.id
            return None
        if pos(test):
            return pos(test), True, None
        if isinstance(test, ast.BoolOp) and isinstance(test.op, ast.And) and pos(test.values[0]):
            rest = test.values[1] if len(test.values) == 2 else ast.BoolOp(op=ast.And(), values=test.values[1:])
            return pos(test.values[0]), True, rest
        if isinstance(test, ast.UnaryOp) and isinstance(test.op, ast.Not) and optvar(test.operand):
            return test.operand.id, False, None
        if isinstance(test, ast.Compare) and len(test.ops) == 1 and isinstance(test.ops[0], ast.Is) and optvar(test.left) \
                and isinstance(test.comparators[0], ast.Constant) and test.comparators[0].value is None:
            return test.left.id, False, None
        return None

    def initial_test(self, test):
        """`x.initial and x.initial in x.states` -> ast of x"""
        if isinstance(test, ast.BoolOp) and isinstance(test.op, ast.And) and len(test.values) == 2:
            a, b = test.values
            if isinstance(a, ast.Attribute) and a.attr == "initial" and isinstance(b, ast.Compare) and len(b.ops) == 1 \
                    and isinstance(b.ops[0], ast.In) and ast.dump(b.left) == ast.dump(a) \
                    and isinstance(b.comparators[0], ast.Attribute) and b.comparators[0].attr == "states" \
                    and ast.dump(b.comparators[0].value) == ast.dump(a.value):
                return a.value
        return None

    # ------------------------------------------------------------------ statements
    @staticmethod
    def assigned(stmts):
        out = []
        for s in stmts:
            for n in ast.walk(s):
                name = None
                if isinstance(n, ast.Assign) and len(n.targets) == 1 and isinstance(n.targets[0], ast.Name):
                    name = n.targets[0].id
                elif isinstance(n, ast.AnnAssign) and isinstance(n.target, ast.Name):
                    name = n.target.id
                elif isinstance(n, ast.Assign) and len(n.targets) == 1 and isinstance(n.targets[0], ast.Subscript):
                    name = "%H"
                elif isinstance(n, ast.Expr) and isinstance(n.value, ast.Call) and isinstance(n.value.func, ast.Attribute) \
                        and n.value.func.attr in ("append", "add", "reverse", "sort") and isinstance(n.value.func.value, ast.Name):
                    name = n.value.func.value.id
                if name and name not in out:
                    out.append(name)
        return out

    @staticmethod
    def terminates(stmts):
        return bool(stmts) and isinstance(stmts[-1], (ast.Return, ast.Continue, ast.Break))

    def cv(self, name):
        return "v_H" if name == "%H" else self.v(name)

    def tup(self, names, env, types=None):
        """tuple of carried variables; a variable narrowed to `node` whose carried type is `optnode` is wrapped"""
        items = []
        for n in names:
            c = self.cv(n)
            if types and types.get(n) == "optnode" and env.get(n) == "node":
                c = f"(Some {c})"
            items.append(c)
        return items[0] if len(items) == 1 else "(" + ", ".join(items) + ")"

    def pat(self, names):
        if len(names) == 1:
            return self.cv(names[0])
        return "'(" + ", ".join(self.cv(n) for n in names) + ")"

    def carried_of(self, stmts, env):
        return [n for n in self.assigned(stmts) if (n in env and env[n] != "cache") or n == "%H"]

    def ann_type(self, ann):
        t = ast.unparse(ann)
        if "TransitionDefinition" in t:
            return "trns"
        if "StateNode" in t:
            return "nodes"
        if t.replace(" ", "") in ("Set[int]", "set[int]"):
            return "ids"
        if t.startswith(("Dict[", "dict[")):
            return "cache"
        return None

    def check_passes(self, fdef):
        """the nested helper `_passes(transition)`: the guard of a transition evaluated through self._is_guard_satisfied, at most
        memoised per selection pass by transition identity.  Read as the oracle `gpass`; any other shape is refused."""
        if not self.spec.get("guard_oracle") or fdef.name != "_passes" or [a.arg for a in fdef.args.args] != ["transition"]:
            self.fail(fdef, "nested function")
        call = "self._is_guard_satisfied(transition.guard_def, event)"
        for n in ast.walk(fdef):
            if isinstance(n, ast.Return):
                if n.value is None or ast.unparse(n.value) not in (call, "guard_cache[key]"):
                    self.fail(n, "_passes returns something else than the guard's value")
            elif isinstance(n, ast.Assign):
                txt = ast.unparse(n)
                if txt not in ("key = id(transition)", f"guard_cache[key] = {call}"):
                    self.fail(n, "_passes assigns something else than the memo entry")
            elif isinstance(n, ast.If):
                if ast.unparse(n.test) not in ("guard_cache is None", "key not in guard_cache"):
                    self.fail(n, "_passes tests something else than the memo")
            elif isinstance(n, (ast.For, ast.While, ast.Try, ast.With, ast.Raise, ast.Lambda, ast.AugAssign, ast.Delete, ast.Global, ast.Nonlocal)):
                self.fail(n, "_passes: statement")

    def block(self, stmts, env, k, loop_k=None, ret_k=None, brk_k=None):
        """k(env): text for falling off the end; loop_k(env): `continue`; brk_k(env): `break`; ret_k(text, env): wraps a returned value"""
        if not stmts:
            return k(env)
        s, rest = stmts[0], stmts[1:]
        nxt = lambda env2: self.block(rest, env2, k, loop_k, ret_k, brk_k)
        if isinstance(s, ast.FunctionDef):
            self.check_passes(s)
            return nxt(env)
        if isinstance(s, ast.Expr):
            val = s.value
            if isinstance(val, ast.Constant) and isinstance(val.value, str):
                return nxt(env)
            if isinstance(val, ast.Call) and isinstance(val.func, ast.Attribute) and isinstance(val.func.value, ast.Name):
                f = val.func
                if f.value.id == "logger":
                    return nxt(env)
                x = f.value.id
                tx = env.get(x)
                if tx in ("nodes", "trns") and f.attr in ("append", "add") and len(val.args) == 1 and not val.keywords:
                    a, ta = self.expr(val.args[0], env)
                    if ta != ELEM[tx]:
                        self.fail(s, f"{f.attr} of {ta}")
                    new = f"({self.v(x)} ++ [{a}])" if f.attr == "append" else f"(set_add {a} {self.v(x)})"
                    return f"let {self.v(x)} := {new} in\n{nxt(env)}"
                if tx == "ids" and f.attr == "add" and len(val.args) == 1 and isinstance(val.args[0], ast.Call) \
                        and isinstance(val.args[0].func, ast.Name) and val.args[0].func.id == "id" and len(val.args[0].args) == 1:
                    a, ta = self.expr(val.args[0].args[0], env)
                    if ta == "trn":
                        return f"let {self.v(x)} := (set_add (t_id {a}) {self.v(x)}) in\n{nxt(env)}"
                if tx == "nodes" and f.attr == "reverse" and not val.args:
                    return f"let {self.v(x)} := (rev {self.v(x)}) in\n{nxt(env)}"
                if tx == "trns" and f.attr == "sort" and not val.args and len(val.keywords) == 1 and val.keywords[0].arg == "key" \
                        and self.lambda_is(val.keywords[0].value, "neg_src_depth"):
                    return f"let {self.v(x)} := (sort_trans m {self.v(x)}) in\n{nxt(env)}"
            self.fail(s, "expression statement")
        if isinstance(s, (ast.Assign, ast.AnnAssign)):
            if isinstance(s, ast.Assign):
                if len(s.targets) != 1:
                    self.fail(s, "assignment target")
                tgt, value = s.targets[0], s.value
            else:
                tgt, value = s.target, s.value
                if value is None:
                    self.fail(s, "declaration without value")
            if isinstance(tgt, ast.Subscript):
                # self._history[p.id] = l
                if self.is_self_attr(tgt.value, "_history") and isinstance(tgt.slice, ast.Attribute) and tgt.slice.attr == "id" \
                        and self.spec.get("mutates_hist"):
                    p, tp = self.expr(tgt.slice.value, env)
                    c, t = self.expr(value, env)
                    if tp == "node" and t == "nodes":
                        return f"let v_H := (hist_set v_H {p} {c}) in\n{nxt(env)}"
                self.fail(s, "subscript assignment")
            if not isinstance(tgt, ast.Name):
                self.fail(s, "assignment target")
            name = tgt.id
            want = self.ann_type(s.annotation) if isinstance(s, ast.AnnAssign) else None
            if want == "cache" and isinstance(value, ast.Dict) and not value.keys:
                env2 = dict(env)
                env2[name] = "cache"
                return nxt(env2)
            if want == "ids" and isinstance(value, ast.Call) and isinstance(value.func, ast.Name) and value.func.id == "set" and not value.args:
                c, t = NIL["ids"], "ids"
            else:
                self.want = want
                try:
                    c, t = self.expr(value, env)
                finally:
                    self.want = None
            if isinstance(s, ast.AnnAssign) and "Optional" in ast.unparse(s.annotation) and t == "node":
                c, t = f"(Some {c})", "optnode"
            if name in env and env[name] != t and {env[name], t} != {"node", "optnode"}:
                self.fail(s, f"type change {env[name]} -> {t}")
            env2 = dict(env)
            env2[name] = t
            # a rebound name invalidates what was known about its old value
            for key in [k_ for k_ in env2 if k_.startswith(("nonempty:", "narrow:")) and f"id='{name}'" in k_]:
                del env2[key]
            return f"let {self.v(name)} := {c} in\n{nxt(env2)}"
        if isinstance(s, ast.Return):
            if s.value is None:
                if self.ret == "hist":
                    c, t = "v_H", "hist"
                else:
                    self.fail(s, "bare return")
            else:
                c, t = self.expr(s.value, env)
            if t == "node" and self.ret == "optnode":
                c, t = f"(Some {c})", "optnode"
            if t != self.ret:
                self.fail(s, f"return type {t}, expected {self.ret}")
            return ret_k(c, env) if ret_k else c
        if isinstance(s, ast.Continue):
            if loop_k is None:
                self.fail(s, "continue outside a for loop")
            return loop_k(env)
        if isinstance(s, ast.Break):
            if brk_k is None:
                self.fail(s, "break outside loop")
            return brk_k(env)
        if isinstance(s, ast.If):
            return self.if_stmt(s, rest, env, k, loop_k, ret_k, brk_k)
        if isinstance(s, ast.For):
            return self.for_stmt(s, rest, env, k, loop_k, ret_k, brk_k)
        if isinstance(s, ast.While):
            return self.while_stmt(s, rest, env, k, loop_k, ret_k, brk_k)
        self.fail(s, "statement")

    def own_exits(self, stmts):
        """does control leave `stmts` other than by falling off the end?  (break / continue of NESTED loops do not count)"""
        for s in stmts:
            if isinstance(s, (ast.Return, ast.Continue, ast.Break)):
                return True
            if isinstance(s, ast.If) and (self.own_exits(s.body) or self.own_exits(s.orelse)):
                return True
            if isinstance(s, (ast.For, ast.While)) and contains(s.body, ast.Return):
                return True
        return False

    def if_stmt(self, s, rest, env, k, loop_k, ret_k, brk_k):
        nxt = lambda env2: self.block(rest, env2, k, loop_k, ret_k, brk_k)
        sub = lambda stmts, env2, kk: self.block(stmts, env2, kk, loop_k, ret_k, brk_k)
        has_exit = self.own_exits(s.body) or self.own_exits(s.orelse)
        # --- `if x.initial and x.initial in x.states:` binds the initial child
        xi = self.initial_test(s.test)
        if xi is not None:
            if s.orelse:
                self.fail(s, "else on an initial test")
            recv, t = self.expr(xi, env)
            if t != "node":
                self.fail(s, "initial of " + t)
            if not has_exit:
                self.fail(s, "initial test without exit")
            env2 = dict(env)
            env2["initof:" + ast.dump(xi)] = "v_initial_"
            return (f"match n_initial (nd m {recv}) with\n| Some v_initial_ => ({sub(s.body, env2, nxt)})\n"
                    f"| None => ({nxt(env)})\nend")
        # --- `if not l: continue / return ...` on a list of transitions: the rest knows the list is non-empty
        if isinstance(s.test, ast.UnaryOp) and isinstance(s.test.op, ast.Not) and not s.orelse and self.terminates(s.body):
            c, t = self.expr(s.test.operand, env)
            if t == "trns":
                env2 = dict(env)
                env2["nonempty:" + ast.dump(s.test.operand)] = ("hd_", "tl_")
                return f"match {c} with\n| [] => ({sub(s.body, env, nxt)})\n| hd_ :: tl_ => ({nxt(env2)})\nend"
        # --- `if x.on_done and <rest>:` binds the transition
        if isinstance(s.test, ast.BoolOp) and isinstance(s.test.op, ast.And) and isinstance(s.test.values[0], ast.Attribute) \
                and s.test.values[0].attr == "on_done" and not s.orelse:
            c, t = self.expr(s.test.values[0], env)
            if t == "otrn":
                more = s.test.values[1] if len(s.test.values) == 2 else ast.BoolOp(op=ast.And(), values=s.test.values[1:])
                env2 = dict(env)
                env2["narrow:" + ast.dump(s.test.values[0])] = ("v_on_done_", "trn")
                if has_exit:
                    return (f"match {c} with\n| Some v_on_done_ => (if {self.test(more, env2)} then ({sub(s.body, env2, nxt)}) else ({nxt(env)}))\n"
                            f"| None => ({nxt(env)})\nend")
                names = self.carried_of(s.body, env)
                types = {n: env.get(n) for n in names}
                kk = lambda e2: self.tup(names, e2, types)
                return (f"let {self.pat(names)} := (match {c} with\n| Some v_on_done_ => (if {self.test(more, env2)} then ({sub(s.body, env2, kk)}) "
                        f"else ({kk(env)}))\n| None => ({kk(env)})\nend) in\n{nxt(env)}")
        nar = self.narrow(s.test, env)
        if has_exit:
            # control leaves through a branch: the continuation is duplicated into every branch that falls through
            if nar and nar[1]:
                x, _, more = nar
                env2 = dict(env)
                env2[x] = "node"
                then = sub(s.body, env2, nxt)
                if more is not None:
                    then = f"if {self.test(more, env2)} then ({then}) else ({sub(s.orelse, env2, nxt)})"
                return f"match {self.v(x)} with\n| Some {self.v(x)} => ({then})\n| None => ({sub(s.orelse, env, nxt)})\nend"
            if nar and not nar[1]:
                x = nar[0]
                env2 = dict(env)
                env2[x] = "node"
                return (f"match {self.v(x)} with\n| None => ({sub(s.body, env, nxt)})\n"
                        f"| Some {self.v(x)} => ({sub(s.orelse, env2, nxt)})\nend")
            c = self.test(s.test, env)
            return f"if {c} then ({sub(s.body, env, nxt)})\nelse ({sub(s.orelse, env, nxt)})"
        # --- no exit inside: rebind the variables the branches assign
        names = self.carried_of(s.body + s.orelse, env)
        if not names:
            self.fail(s, "if without effect on bound variables")
        types = {n: env.get(n) for n in names}
        kk = lambda env2: self.tup(names, env2, types)
        if nar and nar[1]:
            x, _, more = nar
            env2 = dict(env)
            env2[x] = "node"
            then = sub(s.body, env2, kk)
            els2 = sub(s.orelse, env2, kk) if s.orelse else kk(env2)
            if more is not None:
                then = f"if {self.test(more, env2)} then ({then}) else ({els2})"
            els = sub(s.orelse, env, kk) if s.orelse else kk(env)
            body = f"match {self.v(x)} with\n| Some {self.v(x)} => ({then})\n| None => ({els})\nend"
        else:
            c = self.test(s.test, env)
            then = sub(s.body, env, kk)
            els = sub(s.orelse, env, kk) if s.orelse else kk(env)
            body = f"if {c} then ({then}) else ({els})"
        return f"let {self.pat(names)} := ({body}) in\n{nxt(env)}"

    def for_stmt(self, s, rest, env, k, loop_k, ret_k, brk_k):
        if s.orelse or not isinstance(s.target, ast.Name):
            self.fail(s, "for form")
        it, tit = self.iterable(s.iter, env)
        var = s.target.id
        carried = self.carried_of(s.body, env)
        types = {n: env.get(n) for n in carried}
        env_b = dict(env)
        env_b[var] = ELEM[tit]
        has_ret = contains(s.body, ast.Return)
        has_brk = self.own_break(s.body)
        nxt = lambda env2: self.block(rest, env2, k, loop_k, ret_k, brk_k)
        if not has_ret and not has_brk:
            if not carried:
                self.fail(s, "loop without carried variable")
            kk = lambda env2: self.tup(carried, env2, types)
            body = self.block(s.body, env_b, kk, kk, None, None)
            cty = " * ".join(COQTY["hist"] if n == "%H" else COQTY[types[n]] for n in carried)
            acc = f"(acc_ : {cty})" if len(carried) > 1 else self.cv(carried[0])
            if len(carried) > 1:
                body = f"let {self.pat(carried)} := acc_ in\n{body}"
            return (f"let {self.pat(carried)} := fold_left (fun {acc} {self.v(var)} =>\n{textwrap.indent(body, '    ')})\n"
                    f"  {it} {self.tup(carried, env, types)} in\n{nxt(env)}")
        if has_brk and not has_ret:
            # a `break` inside: the accumulator carries a flag; once it is set the remaining elements are skipped
            if not carried:
                self.fail(s, "breaking loop without carried variable")
            flat = lambda env2: ", ".join(self.tup([n], env2, types) for n in carried)
            cont = lambda env2: "(false, " + flat(env2) + ")"
            brk = lambda env2: "(true, " + flat(env2) + ")"
            body = self.block(s.body, env_b, cont, cont, None, brk)
            cty = " * ".join(COQTY["hist"] if n == "%H" else COQTY[types[n]] for n in carried)
            return (f"let '(_, {', '.join(self.cv(n) for n in carried)}) := fold_left (fun (acc_ : bool * {cty}) {self.v(var)} =>\n"
                    f"    let '(brk_, {', '.join(self.cv(n) for n in carried)}) := acc_ in\n    if brk_ then acc_ else\n"
                    f"{textwrap.indent(body, '    ')})\n"
                    f"  {it} (false, {flat(env)}) in\n{nxt(env)}")
        # a `return` inside the loop: the accumulator carries `Some result` once the function has returned
        if carried or has_brk:
            self.fail(s, "loop with return and carried variables / break")
        kk = lambda env2: "None"
        body = self.block(s.body, env_b, kk, kk, lambda c, env2: f"(Some {c})", None)
        after = nxt(env)
        if ret_k:
            self.fail(s, "nested returning loops")
        return (f"match fold_left (fun acc_ {self.v(var)} => match acc_ with Some _ => acc_ | None =>\n"
                f"{textwrap.indent(body, '    ')} end)\n  {it} None with\n| Some r_ => r_\n| None => ({after})\nend")

    def own_break(self, stmts):
        for s in stmts:
            if isinstance(s, ast.Break):
                return True
            if isinstance(s, ast.If) and (self.own_break(s.body) or self.own_break(s.orelse)):
                return True
        return False

    def while_stmt(self, s, rest, env, k, loop_k, ret_k, brk_k):
        if s.orelse or contains(s.body, ast.While) or self.own_continue(s.body):
            self.fail(s, "while form")
        has_ret = contains(s.body, ast.Return)
        if has_ret and ret_k:
            self.fail(s, "returning loop inside a returning loop")
        nar = self.narrow(s.test, env)
        if not nar or not nar[1]:
            self.fail(s, "while test must start with an Optional variable")
        x, _, more = nar
        carried = self.carried_of(s.body, env)
        if x not in carried:
            self.fail(s, "loop variable is not advanced")
        types = {n: env.get(n) for n in carried}
        self.nloop += 1
        lname = f"{self.coqname}_loop{self.nloop}"
        free = [n for n in env if n not in carried and ":" not in n and env[n] in COQTY and env[n] != "cache"]
        ctx = [c for c in self.ctx_list() if not (c == "v_H" and "%H" in carried)]
        params = "".join(f" ({c} : {self.ctx_type(c)})" for c in ctx)
        params += "".join(f" ({self.v(n)} : {COQTY[env[n]]})" for n in free)
        cparams = "".join(f" ({self.cv(n)} : {COQTY['hist'] if n == '%H' else COQTY[types[n]]})" for n in carried)
        rty = " * ".join(COQTY["hist"] if n == "%H" else COQTY[types[n]] for n in carried)
        if has_ret:
            rty = f"option {COQTY[self.ret]} * ({rty})" if len(carried) > 1 else f"option {COQTY[self.ret]} * {rty}"
        env_b = dict(env)
        env_b[x] = "node"
        callargs = "".join(f" {c}" for c in ctx) + "".join(f" {self.v(n)}" for n in free)

        def again(env2):
            items = []
            for n in carried:
                c = self.cv(n)
                if types.get(n) == "optnode" and env2.get(n) == "node":
                    c = f"(Some {c})"
                items.append(c)
            return f"{lname} m{callargs} fuel_ " + " ".join(items)

        stop0 = lambda env2: self.tup(carried, env2, types)
        stop = (lambda env2: f"(None, {stop0(env2)})") if has_ret else stop0
        rk = (lambda c, env2: f"(Some {c}, {stop0(env2)})") if has_ret else None
        body = self.block(s.body, env_b, again, None, rk, stop)
        if more is not None:
            body = f"if {self.test(more, env_b)} then ({body}) else ({stop(env_b)})"
        text = (f"Fixpoint {lname} (m : machine){params} (fuel : nat){cparams} {{struct fuel}} : {rty} :=\n"
                f"  match fuel with\n  | 0 => {stop(env)}\n  | S fuel_ =>\n"
                f"    match {self.v(x)} with\n    | None => {stop(env)}\n    | Some {self.v(x)} =>\n"
                f"{textwrap.indent(body, '      ')}\n    end\n  end.\n")
        self.aux.append(text)
        nxt = lambda env2: self.block(rest, env2, k, loop_k, ret_k, brk_k)
        if has_ret:
            return (f"let '(ret_, {', '.join(self.cv(n) for n in carried)}) := {lname} m{callargs} (S (size m)) {' '.join(self.cv(n) for n in carried)} in\n"
                    f"match ret_ with\n| Some r_ => r_\n| None => ({nxt(env)})\nend")
        return (f"let {self.pat(carried)} := {lname} m{callargs} (S (size m)) {' '.join(self.cv(n) for n in carried)} in\n"
                f"{nxt(env)}")

    def own_continue(self, stmts):
        for s in stmts:
            if isinstance(s, ast.Continue):
                return True
            if isinstance(s, ast.If) and (self.own_continue(s.body) or self.own_continue(s.orelse)):
                return True
        return False

    def ctx_list(self):
        return list(self.spec.get("needs", []))

    @staticmethod
    def ctx_type(c):
        return {"v_C": "list nat", "v_H": COQTY["hist"], "gpass": "trans -> bool"}[c]

    # ------------------------------------------------------------------ whole function
    def translate(self):
        env = {}
        sig = []
        for p, t in self.spec["params"]:
            env[p] = t
            if t == "trans":
                sig.append(f"({self.v(p + '_source')} : nat)")
            elif t == "cache":
                pass
            else:
                sig.append(f"({self.v(p)} : {COQTY[t]})")
        a = self.fdef.args
        args = [x.arg for x in a.args + a.kwonlyargs if x.arg not in ("self", "cls")]
        if args != [p for p, _ in self.spec["params"]] or a.vararg or a.kwarg or a.posonlyargs:
            raise Untranslatable(f"{self.src_name}: parameters changed: {args}")
        for d in list(a.defaults) + [d for d in a.kw_defaults if d is not None]:
            if not (isinstance(d, ast.Constant) and d.value is None):
                raise Untranslatable(f"{self.src_name}: default value other than None")
        ctx = "".join(f" ({c} : {self.ctx_type(c)})" for c in self.ctx_list())

        def off_end(env2):
            if self.ret == "hist":
                return "v_H"
            raise Untranslatable(f"{self.src_name}: function can fall off the end")

        if self.recursive:
            self.fuel = "fuel_"
            body = self.block(self.fdef.body, env, off_end)
            if self.ret != "bool":
                raise Untranslatable("recursive function must return bool")
            main = (f"Fixpoint {self.coqname} (fuel : nat) (m : machine){ctx} {' '.join(sig)} {{struct fuel}} : {COQTY[self.ret]} :=\n"
                    f"  match fuel with\n  | 0 => false\n  | S fuel_ =>\n{textwrap.indent(body, '    ')}\n  end.\n")
        else:
            body = self.block(self.fdef.body, env, off_end)
            main = f"Definition {self.coqname} (m : machine){ctx} {' '.join(sig)} : {COQTY[self.ret]} :=\n{textwrap.indent(body, '  ')}.\n"
        return "\n".join(self.aux) + ("\n" if self.aux else "") + main


SPECS = [
    dict(func="_get_ancestors", coqname="get_ancestors", params=[("node", "node")], ret="nodes"),
    dict(func="_get_path_to_state", coqname="get_path_to_state", params=[("to_state", "node"), ("stop_at", "optnode")], ret="nodes"),
    dict(func="_find_transition_domain", coqname="find_transition_domain",
         params=[("transition", "trans"), ("target_state", "node")], ret="optnode"),
    dict(func="_is_state_done", coqname="is_state_done", params=[("state_node", "node")], ret="bool", recursive=True,
         needs=["v_C"]),
    dict(func="_resolve_history_target", coqname="resolve_history_target", params=[("history_node", "node")], ret="nodes",
         needs=["v_H"]),
    dict(func="_compute_states_to_exit", coqname="compute_states_to_exit",
         params=[("domain", "optnode"), ("target_state", "node")], ret="nodes", needs=["v_C", "v_H"]),
    dict(func="_record_history", coqname="record_history_src", params=[("states_to_exit", "nodes")], ret="hist",
         needs=["v_C", "v_H"], mutates_hist=True),
    dict(func="_has_error_handler", coqname="has_error_handler_src", params=[("invocation", "inv")], ret="bool"),
    # selection: the guard of a transition is read through the oracle `gpass : trans -> bool` (the nested helper _passes)
    dict(func="_collect_eligible_transitions", coqname="collect_eligible_transitions",
         params=[("state", "node"), ("event", "event"), ("guard_cache", "cache")], ret="trns", needs=["gpass"], guard_oracle=True),
    dict(func="_select_transitions", coqname="select_transitions", params=[("event", "event")], ret="trns",
         needs=["v_C", "gpass"], guard_oracle=True),
]
FILE, CLS = "base_interpreter.py", "BaseInterpreter"


def translate_all(src_root=None):
    src_root = src_root or REPO_SRC
    path = os.path.join(src_root, FILE)
    text = open(path, encoding="utf-8").read()
    module = ast.parse(text)
    body = None
    for n in module.body:
        if isinstance(n, ast.ClassDef) and n.name == CLS:
            body = n.body
    if body is None:
        raise Untranslatable(f"class {CLS} not found")
    out = ["(* GENERATED by harness/py2coq_tree.py from the current source tree - do not edit *)",
           "From XSM Require Import Model.TreeLib Gen.GenTree Gen.GenMatch.", ""]
    known = {}
    known_params = {}
    known_recursive = set()
    for spec in SPECS:
        fdefs = [n for n in body if isinstance(n, ast.FunctionDef) and n.name == spec["func"]]
        if len(fdefs) != 1:
            raise Untranslatable(f"function {spec['func']} not found (or async / duplicated)")
        fdef = fdefs[0]
        seg = ast.get_source_segment(text, fdef) or ""
        digest = hashlib.sha256(seg.encode()).hexdigest()[:16]
        fn = TreeFn(fdef, spec, f"{FILE}:{spec['func']}", known)
        fn.known_params = known_params
        fn.known_recursive = known_recursive
        out.append(f"(* {FILE} :: {spec['func']}  sha256[:16]={digest} *)")
        out.append(fn.translate())
        known[spec["func"]] = (spec["coqname"], [t for _, t in spec["params"] if t != "cache"], spec["ret"], spec.get("needs", []))
        known_params[spec["func"]] = [p_ for p_, t in spec["params"] if t != "cache"]
        if spec.get("recursive"):
            known_recursive.add(spec["func"])
    out.append(translate_plans(src_root, known, known_params))
    out.append(translate_on_done(src_root, known, known_params, known_recursive))
    out.append(translate_descent(src_root, known, known_params, known_recursive))
    out.append(translate_skeletons(src_root))
    out.append(translate_process_event(src_root, known, known_params, known_recursive))
    out.append(translate_dispatch(src_root, known, known_params, known_recursive))
    out.append(translate_settle(src_root, known, known_params, known_recursive))
    out.append(translate_drain(src_root, known, known_params, known_recursive))
    out.append(translate_async_loop(src_root, known, known_params, known_recursive))
    out.append(translate_lifecycle(src_root, known))
    out.append(translate_schedule(src_root))
    out.append(translate_snapshot(src_root, known, known_params, known_recursive))
    return "\n".join(out)


# ---------------------------------------------------------------------------------------------------------------------
# the PLAN of an external transition: the pure, geometric statements of _execute_transition (asyncio engine) and of
# SyncInterpreter._process_single_transition, sliced out of the effects around them
PLAN_VARS = ("domain", "states_to_exit", "path_to_enter", "history_targets", "combined_path")
EFFECT_CALLS = ("_exit_states", "_execute_actions", "_enter_states", "_notify_subscribers", "_schedule_state_tasks")
PLAN_SOURCES = [("base_interpreter.py", "BaseInterpreter", "_execute_transition", "xt"),
                ("sync_interpreter.py", "SyncInterpreter", "_process_single_transition", "pst")]


def _plan_slice(stmts, found, src):
    def fail(node, why):
        raise Untranslatable(f"{src}:{getattr(node, 'lineno', '?')}: plan slice: {why}: {ast.unparse(node)[:90]}")
    out = []
    for s in stmts:
        if isinstance(s, ast.Expr) and isinstance(s.value, ast.Constant):
            continue
        if isinstance(s, ast.Try):
            if s.orelse or s.finalbody:
                fail(s, "try with else / finally")
            out += _plan_slice(s.body, found, src)
            for h in s.handlers:          # the rollback: effects only, and it must end by re-raising
                for n in ast.walk(h):
                    if isinstance(n, (ast.Assign, ast.AnnAssign, ast.AugAssign)):
                        fail(n, "assignment inside the rollback handler")
                if not (h.body and isinstance(h.body[-1], ast.Raise) and h.body[-1].exc is None):
                    fail(h, "rollback handler does not re-raise")
            continue
        if isinstance(s, (ast.Assign, ast.AnnAssign)):
            tgt = s.targets[0] if isinstance(s, ast.Assign) and len(s.targets) == 1 else getattr(s, "target", None)
            if isinstance(tgt, ast.Name) and tgt.id in PLAN_VARS:
                out.append(s)
                continue
            if isinstance(tgt, ast.Name) and ast.unparse(s.value) == "self._active_state_nodes.copy()":
                continue                  # the configuration snapshot used by the rollback
            fail(s, "assignment to something that is not a plan variable")
        if isinstance(s, ast.Expr):
            call = s.value.value if isinstance(s.value, ast.Await) else s.value
            if isinstance(call, ast.Call) and isinstance(call.func, ast.Attribute):
                f = call.func
                if isinstance(f.value, ast.Name) and f.value.id == "logger":
                    continue
                if isinstance(f.value, ast.Name) and f.value.id == "self" and f.attr in EFFECT_CALLS:
                    if f.attr == "_exit_states":
                        if "exit_order" in found or len(call.args) != 2:
                            fail(s, "second / malformed _exit_states call")
                        found["exit_order"] = call.args[0]
                    if f.attr == "_enter_states":
                        found["entered"].append(ast.unparse(call.args[0]) if call.args else "?")
                    if f.attr == "_execute_actions":
                        found["actions"].append(ast.unparse(call.args[0]) if call.args else "?")
                    found["order"].append(f.attr)
                    continue
                if isinstance(f.value, ast.Name) and f.value.id in ("plug", "plugin") and f.attr == "on_transition":
                    continue
            fail(s, "statement that is neither a plan assignment nor a known effect")
        if isinstance(s, ast.For):
            if ast.unparse(s.iter) == "self._plugins":
                _plan_slice(s.body, found, src)
                continue
            names = TreeFn.assigned(s.body)
            if names and all(n in PLAN_VARS for n in names) and not contains(s.body, (ast.Await,)):
                out.append(s)
                continue
            fail(s, "loop")
        if isinstance(s, ast.If):
            body = _plan_slice(s.body, found, src)
            orelse = _plan_slice(s.orelse, found, src)
            if body or orelse:
                if not body:
                    fail(s, "if whose plan part is only in the else branch")
                out.append(ast.If(test=s.test, body=body, orelse=orelse))
            continue
        fail(s, "statement")
    return out


def translate_plans(src_root, known, known_params):
    """-> Coq text: for each engine's transition routine four functions <prefix>_domain / _exit_order / _path / _combined"""
    out = []
    for fname, cls, func, prefix in PLAN_SOURCES:
        text = open(os.path.join(src_root, fname), encoding="utf-8").read()
        module = ast.parse(text)
        fdef = None
        for n in module.body:
            if isinstance(n, ast.ClassDef) and n.name == cls:
                for f in n.body:
                    if isinstance(f, (ast.FunctionDef, ast.AsyncFunctionDef)) and f.name == func:
                        fdef = f
        if fdef is None:
            raise Untranslatable(f"{fname}: {func} not found")
        src = f"{fname}:{func}"
        body = list(fdef.body)
        start = next((i for i, st in enumerate(body)
                      if isinstance(st, (ast.Assign, ast.AnnAssign)) and "snapshot_before" in ast.unparse(st).split("=")[0]), None)
        if start is None:
            raise Untranslatable(f"{src}: the configuration snapshot that starts the external part was not found")
        found = dict(entered=[], actions=[], order=[])
        sliced = _plan_slice(body[start:], found, src)
        if "exit_order" not in found or found["entered"] != ["path_to_enter", "combined_path"] or found["actions"] != ["transition.actions"] \
                or found["order"][:4] != ["_exit_states", "_execute_actions", "_enter_states", "_enter_states"]:
            raise Untranslatable(f"{src}: effects are not exit(order); actions(transition.actions); enter(path_to_enter); "
                                 f"enter(combined_path): {found['order']} {found['entered']} {found['actions']}")
        pre = ast.parse("combined_path: List[StateNode] = []").body
        post = [ast.Assign(targets=[ast.Name(id="exit_order", ctx=ast.Store())], value=found["exit_order"], lineno=0)]
        seg = ast.get_source_segment(text, fdef) or ""
        out.append(f"(* {fname} :: {func}  sha256[:16]={hashlib.sha256(seg.encode()).hexdigest()[:16]}: the geometric plan, sliced out of the effects *)")
        for var, suffix, ret in (("domain", "domain", "optnode"), ("exit_order", "exit_order", "nodes"), ("path_to_enter", "path", "nodes"),
                                 ("combined_path", "combined", "nodes")):
            stmts = pre + sliced + post + [ast.Return(value=ast.Name(id=var, ctx=ast.Load()))]
            synth = ast.FunctionDef(name=func + "_plan", args=ast.arguments(posonlyargs=[], args=[ast.arg(arg="self"), ast.arg(arg="transition"), ast.arg(arg="target_state")],
                                                                          kwonlyargs=[], kw_defaults=[], defaults=[]),
                                    body=stmts, decorator_list=[], lineno=fdef.lineno)
            ast.fix_missing_locations(synth)
            spec = dict(func=func + "_plan", coqname=f"{prefix}_{suffix}", params=[("transition", "trans"), ("target_state", "node")], ret=ret,
                        needs=["v_C", "v_H"])
            fn = TreeFn(synth, spec, src, known)
            fn.known_params = known_params
            out.append(fn.translate())
    return "\n".join(out)


# ---------------------------------------------------------------------------------------------------------------------
# _check_and_fire_on_done (both engines' copies): WHICH ancestor's onDone fires when a final state is entered, or whether the
# machine completes.  The effects are replaced by the decision they implement before the function is translated.
ON_DONE_SOURCES = [("base_interpreter.py", "BaseInterpreter", "_check_and_fire_on_done", "on_done_async"),
                   ("sync_interpreter.py", "SyncInterpreter", "_check_and_fire_on_done", "on_done_sync")]


def _is_logger(s):
    return isinstance(s, ast.Expr) and isinstance(s.value, ast.Call) and isinstance(s.value.func, ast.Attribute) \
        and isinstance(s.value.func.value, ast.Name) and s.value.func.value.id == "logger"


def _fire_block_ok(stmts):
    """logger calls; done_event_type = f"done.state.{ancestor.id}"; done_event = DoneEvent(...); self._note_chained_event();
    [await] self.send(<the done event of THIS ancestor>); return"""
    if not stmts or not (isinstance(stmts[-1], ast.Return) and stmts[-1].value is None):
        return False
    sent = False
    for s in stmts[:-1]:
        if _is_logger(s) or (isinstance(s, ast.Expr) and isinstance(s.value, ast.Constant)):
            continue
        txt = ast.unparse(s)
        if txt == "done_event_type = f'done.state.{ancestor.id}'":
            continue
        if txt == "self._note_chained_event()":
            continue
        ev = "DoneEvent(type=%s, data=self._resolve_output(final_state), src=ancestor.id)"
        if txt == "done_event = " + ev % "f'done.state.{ancestor.id}'":
            continue
        if txt in ("await self.send(done_event)", "self.send(" + ev % "done_event_type" + ")"):
            sent = True
            continue
        return False
    return sent


def _complete_block_ok(s):
    want = ("if final_state.parent is self.machine or final_state.parent is None:\n"
            "    machine_output = getattr(self.machine, 'machine_output', None)\n"
            "    if machine_output is not None:\n"
            "        self._complete(self._resolve_output_value(machine_output))\n"
            "    else:\n"
            "        self._complete(self._resolve_output(final_state))")
    return isinstance(s, ast.If) and ast.unparse(s) == want


def translate_on_done(src_root, known, known_params, known_recursive):
    out = []
    for fname, cls, func, coqname in ON_DONE_SOURCES:
        text = open(os.path.join(src_root, fname), encoding="utf-8").read()
        module = ast.parse(text)
        fdef = None
        for n in module.body:
            if isinstance(n, ast.ClassDef) and n.name == cls:
                for f in n.body:
                    if isinstance(f, (ast.FunctionDef, ast.AsyncFunctionDef)) and f.name == func:
                        fdef = f
        if fdef is None:
            raise Untranslatable(f"{fname}: {func} not found")
        src = f"{fname}:{func}"
        body = [st for st in fdef.body if not _is_logger(st) and not (isinstance(st, ast.Expr) and isinstance(st.value, ast.Constant))]
        if len(body) != 3 or not isinstance(body[1], ast.While) or not _complete_block_ok(body[2]):
            raise Untranslatable(f"{src}: expected `ancestor = ...; while ancestor: ...; <top-level completion>`")
        loop = body[1]
        wb = [st for st in loop.body if not _is_logger(st)]
        if len(wb) != 2 or not isinstance(wb[0], ast.If) or wb[0].orelse or not _fire_block_ok(wb[0].body):
            raise Untranslatable(f"{src}:{loop.lineno}: the loop body is not `if <done>: <queue the done event of this ancestor>; return` + advance")
        fire = ast.parse("return FIRE__(ancestor)").body
        new_loop = ast.While(test=loop.test, body=[ast.If(test=wb[0].test, body=fire, orelse=[]), wb[1]], orelse=[])
        comp = ast.If(test=body[2].test, body=ast.parse("return COMPLETE__").body, orelse=[])
        synth = ast.FunctionDef(name=func, args=ast.arguments(posonlyargs=[], args=[ast.arg(arg="self"), ast.arg(arg="final_state")],
                                                               kwonlyargs=[], kw_defaults=[], defaults=[]),
                                body=[body[0], new_loop, comp] + ast.parse("return NOTHING__").body, decorator_list=[], lineno=fdef.lineno)
        ast.fix_missing_locations(synth)
        spec = dict(func=func, coqname=coqname, params=[("final_state", "node")], ret="decision", needs=["v_C"])
        fn = TreeFn(synth, spec, src, known)
        fn.known_params = known_params
        fn.known_recursive = known_recursive
        seg = ast.get_source_segment(text, fdef) or ""
        out.append(f"(* {fname} :: {func}  sha256[:16]={hashlib.sha256(seg.encode()).hexdigest()[:16]}: the decision (effects replaced by what they decide) *)")
        out.append(fn.translate())
    return "\n".join(out)


# ---------------------------------------------------------------------------------------------------------------------
# _enter_states (both engines' copies): for one state of the list being entered, WHAT is entered below it by default - its
# initial child, its regions that the list does not name, nothing, or an error.  The effects are dropped / replaced by the
# decision before the loop body is translated as a function of (states_to_enter, state).
ENTER_SOURCES = [("base_interpreter.py", "BaseInterpreter", "_enter_states", "descent_async"),
                 ("sync_interpreter.py", "SyncInterpreter", "_enter_states", "descent_sync")]
ENTER_EFFECTS = ("_execute_actions", "_schedule_state_tasks", "_check_and_fire_on_done")


def _descent_rewrite(stmts, src):
    def fail(node, why):
        raise Untranslatable(f"{src}:{getattr(node, 'lineno', '?')}: entry decision: {why}: {ast.unparse(node)[:90]}")
    out = []
    for s in stmts:
        if _is_logger(s) or (isinstance(s, ast.Expr) and isinstance(s.value, ast.Constant)):
            continue
        if isinstance(s, ast.Expr):
            call = s.value.value if isinstance(s.value, ast.Await) else s.value
            if isinstance(call, ast.Call) and isinstance(call.func, ast.Attribute):
                txt = ast.unparse(call.func)
                if txt == "self._active_state_nodes.add":
                    continue
                if isinstance(call.func.value, ast.Name) and call.func.value.id == "self" and call.func.attr in ENTER_EFFECTS:
                    continue
                if txt == "self._enter_states" and len(call.args) == 2:
                    out.append(ast.Return(value=ast.Call(func=ast.Name(id="DESCEND__", ctx=ast.Load()), args=[call.args[0]], keywords=[])))
                    continue
            fail(s, "statement")
        if isinstance(s, ast.Raise):
            if s.exc is None or not ast.unparse(s.exc).startswith("InvalidConfigError("):
                fail(s, "raise of something else than InvalidConfigError")
            out.append(ast.Return(value=ast.Name(id="DERROR__", ctx=ast.Load())))
            continue
        if isinstance(s, ast.Continue):
            out.append(ast.Return(value=ast.Name(id="DNONE__", ctx=ast.Load())))
            continue
        if isinstance(s, (ast.Assign, ast.AnnAssign)):
            out.append(s)
            continue
        if isinstance(s, ast.If):
            body = _descent_rewrite(s.body, src)
            orelse = _descent_rewrite(s.orelse, src)
            if body or orelse:
                if not body:
                    fail(s, "if with an empty then-branch")
                out.append(ast.If(test=s.test, body=body, orelse=orelse))
            continue
        fail(s, "statement")
    return out


def translate_descent(src_root, known, known_params, known_recursive):
    out = []
    for fname, cls, func, coqname in ENTER_SOURCES:
        text = open(os.path.join(src_root, fname), encoding="utf-8").read()
        module = ast.parse(text)
        fdef = None
        for n in module.body:
            if isinstance(n, ast.ClassDef) and n.name == cls:
                for f in n.body:
                    if isinstance(f, (ast.FunctionDef, ast.AsyncFunctionDef)) and f.name == func:
                        fdef = f
        if fdef is None:
            raise Untranslatable(f"{fname}: {func} not found")
        src = f"{fname}:{func}"
        body = [st for st in fdef.body if not _is_logger(st) and not (isinstance(st, ast.Expr) and isinstance(st.value, ast.Constant))]
        loops = [i for i, st in enumerate(body) if isinstance(st, ast.For)]
        if len(loops) != 1 or loops[0] != len(body) - 1 or ast.unparse(body[-1].target) != "state" or ast.unparse(body[-1].iter) != "states_to_enter":
            raise Untranslatable(f"{src}: expected the function to end with `for state in states_to_enter:`")
        prefix = []
        for st in body[:-1]:
            tgt = st.targets[0] if isinstance(st, ast.Assign) and len(st.targets) == 1 else getattr(st, "target", None)
            if isinstance(tgt, ast.Name) and tgt.id == "trigger_event":
                continue            # which event the entry actions see: an effect detail (property C03), not part of the decision
            if isinstance(tgt, ast.Name) and tgt.id in ("explicit_children", "explicit_child_ids"):
                prefix.append(st)
                continue
            raise Untranslatable(f"{src}:{st.lineno}: unexpected statement before the loop: {ast.unparse(st)[:80]}")
        stmts = prefix + _descent_rewrite(body[-1].body, src) + [ast.Return(value=ast.Name(id="DNONE__", ctx=ast.Load()))]
        synth = ast.FunctionDef(name=func, args=ast.arguments(posonlyargs=[], args=[ast.arg(arg="self"), ast.arg(arg="states_to_enter"), ast.arg(arg="state")],
                                                               kwonlyargs=[], kw_defaults=[], defaults=[]),
                                body=stmts, decorator_list=[], lineno=fdef.lineno)
        ast.fix_missing_locations(synth)
        spec = dict(func=func, coqname=coqname, params=[("states_to_enter", "nodes"), ("state", "node")], ret="descent", needs=[])
        fn = TreeFn(synth, spec, src, known)
        fn.known_params = known_params
        fn.known_recursive = known_recursive
        seg = ast.get_source_segment(text, fdef) or ""
        out.append(f"(* {fname} :: {func}  sha256[:16]={hashlib.sha256(seg.encode()).hexdigest()[:16]}: what is entered by default below one state of the list *)")
        out.append(fn.translate())
    return "\n".join(out)


# ---------------------------------------------------------------------------------------------------------------------
# EFFECT SKELETONS of _exit_states and _enter_states (both engines' copies): in which ORDER the effects of leaving / entering
# one state happen.  Emitted as data (lists over the effect alphabets of Model/TreeLib.v); their interpreter is in Coq and is
# proved equal to the model's exit_states / enter_one (Proofs/SkeletonBridge.v).
def _find_method(src_root, fname, cls, func):
    text = open(os.path.join(src_root, fname), encoding="utf-8").read()
    module = ast.parse(text)
    for n in module.body:
        if isinstance(n, ast.ClassDef) and n.name == cls:
            for f in n.body:
                if isinstance(f, (ast.FunctionDef, ast.AsyncFunctionDef)) and f.name == func:
                    return text, f
    raise Untranslatable(f"{fname}: {func} not found")


def _call_of(s):
    if isinstance(s, ast.Expr):
        c = s.value.value if isinstance(s.value, ast.Await) else s.value
        if isinstance(c, ast.Call):
            return c
    return None


def exit_skeleton(src_root, fname, cls):
    text, fdef = _find_method(src_root, fname, cls, "_exit_states")
    src = f"{fname}:_exit_states"
    steps = []
    for st in fdef.body:
        if _is_logger(st) or (isinstance(st, ast.Expr) and isinstance(st.value, ast.Constant)):
            continue
        tgt = st.targets[0] if isinstance(st, ast.Assign) and len(st.targets) == 1 else None
        if isinstance(tgt, ast.Name) and tgt.id == "trigger_event":
            continue
        c = _call_of(st)
        if c is not None and ast.unparse(c) == "self._record_history(states_to_exit)":
            steps.append("XRecord")
            continue
        if isinstance(st, ast.For) and ast.unparse(st.target) == "state" and ast.unparse(st.iter) == "states_to_exit" and not st.orelse:
            effs = []
            for b in st.body:
                if _is_logger(b):
                    continue
                cb = _call_of(b)
                txt = ast.unparse(cb) if cb is not None else ""
                if txt == "self._cancel_state_tasks(state)":
                    effs.append("XCancel")
                elif cb is not None and ast.unparse(cb.func) == "self._execute_actions" and len(cb.args) == 2 and ast.unparse(cb.args[0]) == "state.exit":
                    effs.append("XActions")
                elif txt == "self._active_state_nodes.discard(state)":
                    effs.append("XLeave")
                else:
                    raise Untranslatable(f"{src}:{b.lineno}: unexpected statement in the exit loop: {ast.unparse(b)[:80]}")
            steps.append("XLoop [" + "; ".join(effs) + "]")
            continue
        raise Untranslatable(f"{src}:{st.lineno}: unexpected statement: {ast.unparse(st)[:80]}")
    seg = ast.get_source_segment(text, fdef) or ""
    return "[" + "; ".join(steps) + "]", hashlib.sha256(seg.encode()).hexdigest()[:16]


def entry_skeleton(src_root, fname, cls):
    text, fdef = _find_method(src_root, fname, cls, "_enter_states")
    src = f"{fname}:_enter_states"
    loops = [st for st in fdef.body if isinstance(st, ast.For)]
    if len(loops) != 1:
        raise Untranslatable(f"{src}: expected one loop")

    def classify(st):
        c = _call_of(st)
        if c is None:
            return None
        txt = ast.unparse(c)
        if txt == "self._active_state_nodes.add(state)":
            return "NAdd"
        if ast.unparse(c.func) == "self._execute_actions" and len(c.args) == 2 and ast.unparse(c.args[0]) == "state.entry":
            return "NActions"
        if txt == "self._schedule_state_tasks(state)":
            return "NSchedule"
        if txt == "self._check_and_fire_on_done(state)":
            return "NFinalCheck"
        if ast.unparse(c.func) == "self._enter_states":
            return "NDescend"
        return None

    paths = []

    def walk(stmts, acc, k):
        """enumerate the paths through stmts; k(acc) continues after them"""
        if not stmts:
            return k(acc)
        st, rest = stmts[0], stmts[1:]
        if _is_logger(st) or (isinstance(st, ast.Expr) and isinstance(st.value, ast.Constant)) or isinstance(st, (ast.Assign, ast.AnnAssign)):
            return walk(rest, acc, k)
        if isinstance(st, ast.Continue):
            paths.append((acc, "continue"))
            return
        if isinstance(st, ast.Raise):
            paths.append((acc + ["NDescend"], "raise"))
            return
        if isinstance(st, ast.If):
            guard_final = ast.unparse(st.test) in ("state.is_final", "state.type == 'final'")
            body_kinds = [classify(b) for b in st.body if not _is_logger(b)]
            if "NFinalCheck" in body_kinds and not (guard_final and body_kinds == ["NFinalCheck"] and not st.orelse):
                raise Untranslatable(f"{src}:{st.lineno}: the done check is not `if <state is final>: check`")
            walk(st.body, acc, lambda a: walk(rest, a, k))
            walk(st.orelse, acc, lambda a: walk(rest, a, k))
            return
        kind = classify(st)
        if kind is None:
            raise Untranslatable(f"{src}:{st.lineno}: unexpected statement in the entry loop: {ast.unparse(st)[:80]}")
        return walk(rest, acc + [kind], k)

    walk(loops[0].body, [], lambda a: paths.append((a, "end")))
    kinds = ["NAdd", "NActions", "NSchedule", "NFinalCheck", "NDescend"]
    before = set()
    for acc, how in paths:
        if len(set(acc)) != len(acc):
            raise Untranslatable(f"{src}: an effect happens twice on one path: {acc}")
        if acc[:2] != ["NAdd", "NActions"]:
            raise Untranslatable(f"{src}: a path does not start with add, entry actions: {acc}")
        if how != "raise" and "NSchedule" not in acc:
            raise Untranslatable(f"{src}: a path that does not raise never schedules the state's tasks: {acc}")
        for i, a in enumerate(acc):
            for b in acc[i + 1:]:
                before.add((a, b))
    for a in kinds:
        for b in kinds:
            if a != b and ((a, b) in before) == ((b, a) in before):
                raise Untranslatable(f"{src}: the order of {a} and {b} is {'contradictory' if (a, b) in before else 'never determined'}")
    order = sorted(kinds, key=lambda x: sum(1 for y in kinds if (y, x) in before))
    seg = ast.get_source_segment(text, fdef) or ""
    return "[" + "; ".join(order) + "]", hashlib.sha256(seg.encode()).hexdigest()[:16]


def translate_skeletons(src_root):
    out = []
    for fname, cls, suffix in (("base_interpreter.py", "BaseInterpreter", "async"), ("sync_interpreter.py", "SyncInterpreter", "sync")):
        sk, dg = exit_skeleton(src_root, fname, cls)
        out.append(f"(* {fname} :: _exit_states  sha256[:16]={dg}: the order of its effects *)\nDefinition exit_skeleton_{suffix} : list xstep := {sk}.\n")
        sk, dg = entry_skeleton(src_root, fname, cls)
        out.append(f"(* {fname} :: _enter_states  sha256[:16]={dg}: the order of the effects of entering one state (every path through the loop body agrees with it) *)\n"
                   f"Definition entry_skeleton_{suffix} : list neff := {sk}.\n")
    return "\n".join(out)


# ---------------------------------------------------------------------------------------------------------------------
# _process_event (both engines' copies): select, then execute each selected transition in turn, SKIPPING one whose source was
# exited by an earlier winner of the same step.  The shape is checked and the skip test is translated.
def translate_process_event(src_root, known, known_params, known_recursive):
    out = []
    for fname, cls, call, coqname in (("base_interpreter.py", "BaseInterpreter", "await self._execute_transition(transition, event)", "skip_stale_async"),
                                      ("sync_interpreter.py", "SyncInterpreter", "self._execute_transition_sync(transition, event)", "skip_stale_sync")):
        text, fdef = _find_method(src_root, fname, cls, "_process_event")
        src = f"{fname}:_process_event"
        body = [st for st in fdef.body if not _is_logger(st) and not (isinstance(st, ast.Expr) and isinstance(st.value, ast.Constant))]
        ok = len(body) == 3 and ast.unparse(body[0]) == "transitions = self._select_transitions(event)" \
            and isinstance(body[1], ast.If) and ast.unparse(body[1].test) == "not transitions" and not body[1].orelse \
            and [ast.unparse(x) for x in body[1].body if not _is_logger(x)] == ["return"] \
            and isinstance(body[2], ast.For) and ast.unparse(body[2].target) == "transition" and ast.unparse(body[2].iter) == "transitions"
        if ok:
            lb = [x for x in body[2].body if not _is_logger(x)]
            ok = len(lb) == 2 and isinstance(lb[0], ast.If) and not lb[0].orelse \
                and [ast.unparse(x) for x in lb[0].body if not _is_logger(x)] == ["continue"] and ast.unparse(lb[1]) == call
        if not ok:
            raise Untranslatable(f"{src}: expected `transitions = select; if not transitions: return; for transition in transitions: "
                                 f"if <stale>: continue; execute(transition, event)`")
        synth = ast.FunctionDef(name="_process_event_skip", args=ast.arguments(posonlyargs=[], args=[ast.arg(arg="self"), ast.arg(arg="transitions"), ast.arg(arg="transition")],
                                                                               kwonlyargs=[], kw_defaults=[], defaults=[]),
                                body=[ast.Return(value=lb[0].test)], decorator_list=[], lineno=fdef.lineno)
        ast.fix_missing_locations(synth)
        spec = dict(func="_process_event_skip", coqname=coqname, params=[("transitions", "trns"), ("transition", "trn")], ret="bool", needs=["v_C"])
        fn = TreeFn(synth, spec, src, known)
        fn.known_params = known_params
        fn.known_recursive = known_recursive
        seg = ast.get_source_segment(text, fdef) or ""
        out.append(f"(* {fname} :: _process_event  sha256[:16]={hashlib.sha256(seg.encode()).hexdigest()[:16]}: shape checked (select; nothing selected -> return; "
                   f"for each selected: skip if stale, else execute); the skip test *)")
        out.append(fn.translate())
    return "\n".join(out)


# ---------------------------------------------------------------------------------------------------------------------
# _execute_transition (asyncio engine) / _execute_transition_sync: HOW a selected transition is dispatched - actions only
# (no target), StateNotFoundError, internal (target = source, no reenter), or external with the resolved target.  The target
# resolution itself is the model's pre-resolved `t_target` (tied by K-resolve, property C18).
def _actions_only_block_ok(stmts):
    """[logger]; [await] self._execute_actions(transition.actions, event); for plug in self._plugins: plug.on_transition(...); return"""
    seen = []
    for st in stmts:
        if _is_logger(st):
            continue
        c = _call_of(st)
        if c is not None and ast.unparse(c) == "self._execute_actions(transition.actions, event)":
            seen.append("actions")
        elif isinstance(st, ast.For) and ast.unparse(st.iter) == "self._plugins" and len(st.body) == 1 and _call_of(st.body[0]) is not None \
                and ast.unparse(_call_of(st.body[0]).func).endswith(".on_transition"):
            seen.append("hook")
        elif isinstance(st, ast.Return) and st.value is None:
            seen.append("return")
        else:
            return False
    return seen == ["actions", "hook", "return"]


def translate_dispatch(src_root, known, known_params, known_recursive):
    out = []
    for fname, cls, func, coqname, resolver in (("base_interpreter.py", "BaseInterpreter", "_execute_transition", "dispatch_async", "_resolve_target_state_node"),
                                                ("sync_interpreter.py", "SyncInterpreter", "_execute_transition_sync", "dispatch_sync", "_resolve_target_state_robustly")):
        text, fdef = _find_method(src_root, fname, cls, func)
        src = f"{fname}:{func}"
        body = [st for st in fdef.body if not _is_logger(st) and not (isinstance(st, ast.Expr) and isinstance(st.value, ast.Constant))]
        new = []
        i = 0

        def bad(why):
            raise Untranslatable(f"{src}: dispatch: {why}")
        if not (isinstance(body[0], ast.If) and ast.unparse(body[0].test) == "not transition.target_str" and not body[0].orelse
                and _actions_only_block_ok(body[0].body)):
            bad("expected `if not transition.target_str: <actions; on_transition hooks; return>`")
        new.append(ast.If(test=body[0].test, body=ast.parse("return TARGETLESS__").body, orelse=[]))
        if ast.unparse(body[1]) != f"target_state = self.{resolver}(transition)":
            bad("expected the target to be resolved next")
        new += ast.parse("target_state = RESOLVE__(transition)").body
        i = 2
        if isinstance(body[i], ast.If) and ast.unparse(body[i].test) == "target_state is None":
            if not (len(body[i].body) == 1 and isinstance(body[i].body[0], ast.Raise) and ast.unparse(body[i].body[0].exc).startswith("StateNotFoundError(")):
                bad("an unresolvable target must raise StateNotFoundError")
            i += 1
        elif resolver != "_resolve_target_state_robustly":
            bad("no check of the resolved target")
        # (the sync resolver raises StateNotFoundError itself when every strategy fails)
        new += ast.parse("if target_state is None:\n    return NOTFOUND__").body
        st = body[i]
        if not (isinstance(st, ast.If) and ast.unparse(st.test) == "target_state == transition.source and (not transition.reenter)" and not st.orelse
                and _actions_only_block_ok(st.body)):
            bad("expected `if target_state == transition.source and not transition.reenter: <actions; hooks; return>`: " + ast.unparse(st.test))
        new.append(ast.If(test=st.test, body=ast.parse("return INTERNAL__").body, orelse=[]))
        rest = body[i + 1:]
        if resolver == "_resolve_target_state_robustly":
            if [ast.unparse(x) for x in rest] != ["self._process_single_transition(transition, event, target_state)"]:
                bad("expected the external part to be _process_single_transition(transition, event, target_state)")
        elif not rest or "snapshot_before" not in ast.unparse(rest[0]):
            bad("expected the external part to start with the configuration snapshot")
        new += ast.parse("return EXTERNAL__(target_state)").body
        synth = ast.FunctionDef(name=func, args=ast.arguments(posonlyargs=[], args=[ast.arg(arg="self"), ast.arg(arg="transition")],
                                                               kwonlyargs=[], kw_defaults=[], defaults=[]),
                                body=new, decorator_list=[], lineno=fdef.lineno)
        ast.fix_missing_locations(synth)
        spec = dict(func=func, coqname=coqname, params=[("transition", "trn")], ret="dispatch", needs=[])
        fn = TreeFn(synth, spec, src, known)
        fn.known_params = known_params
        fn.known_recursive = known_recursive
        seg = ast.get_source_segment(text, fdef) or ""
        out.append(f"(* {fname} :: {func}  sha256[:16]={hashlib.sha256(seg.encode()).hexdigest()[:16]}: how a selected transition is dispatched *)")
        out.append(fn.translate())
    return "\n".join(out)


# ---------------------------------------------------------------------------------------------------------------------
# the settle loop of eventless transitions (_process_transient_transitions / _settle_transient_transitions): its shape is
# checked and its two tests are translated - when the loop is CUT (the microstep counter against maxIterations) and when it
# GOES ON (something selected for the empty event type, among it an eventless transition)
def translate_settle(src_root, known, known_params, known_recursive):
    out = []
    for fname, cls, func, suffix, proc in (("sync_interpreter.py", "SyncInterpreter", "_process_transient_transitions", "sync", "self._process_event(transient_event)"),
                                           ("interpreter.py", "Interpreter", "_settle_transient_transitions", "async", "await self._process_event(transient_event)")):
        text, fdef = _find_method(src_root, fname, cls, func)
        src = f"{fname}:{func}"
        body = [st for st in fdef.body if not _is_logger(st) and not (isinstance(st, ast.Expr) and isinstance(st.value, ast.Constant))]

        def bad(why):
            raise Untranslatable(f"{src}: settle loop: {why}")
        if [ast.unparse(x) for x in body[:2]] != ["iterations = 0", "limit = getattr(self.machine, 'max_iterations', 1000)"] or len(body) != 3 \
                or not isinstance(body[2], ast.While) or ast.unparse(body[2].test) != "True" or body[2].orelse:
            bad("expected `iterations = 0; limit = maxIterations; while True: ...`")
        lb = [st for st in body[2].body if not _is_logger(st)]
        if len(lb) != 5 or ast.unparse(lb[0]) != "iterations += 1" or not isinstance(lb[1], ast.If) or lb[1].orelse \
                or [ast.unparse(x) for x in lb[1].body if not _is_logger(x)] != ["break"] \
                or ast.unparse(lb[2]) != "transient_event = Event(type='')" \
                or ast.unparse(lb[3]) != "selected = self._select_transitions(transient_event)" or not isinstance(lb[4], ast.If) \
                or [ast.unparse(x) for x in lb[4].body if not _is_logger(x)] != [proc] \
                or [ast.unparse(x) for x in lb[4].orelse if not _is_logger(x)] != ["break"]:
            bad("expected `iterations += 1; if <cut>: break; transient_event = Event(type=''); selected = select(transient_event); "
                "if <goes on>: process_event(transient_event) else: break`")
        seg = ast.get_source_segment(text, fdef) or ""
        out.append(f"(* {fname} :: {func}  sha256[:16]={hashlib.sha256(seg.encode()).hexdigest()[:16]}: shape checked; the two tests of the loop *)")
        for name, test, params in ((f"settle_cut_{suffix}", lb[1].test, [("iterations", "nat"), ("limit", "nat")]),
                                   (f"settle_goes_on_{suffix}", lb[4].test, [("selected", "trns")])):
            synth = ast.FunctionDef(name=func, args=ast.arguments(posonlyargs=[], args=[ast.arg(arg="self")] + [ast.arg(arg=p_) for p_, _ in params],
                                                                   kwonlyargs=[], kw_defaults=[], defaults=[]),
                                    body=[ast.Return(value=test)], decorator_list=[], lineno=fdef.lineno)
            ast.fix_missing_locations(synth)
            fn = TreeFn(synth, dict(func=func, coqname=name, params=params, ret="bool", needs=[]), src, known)
            fn.known_params = known_params
            fn.known_recursive = known_recursive
            out.append(fn.translate())
    return "\n".join(out)


# ---------------------------------------------------------------------------------------------------------------------
# the drain loop of the sync engine (_process_event_queue): shape checked (re-entrancy guard; while the queue is not empty:
# count, cut when the count exceeds maxIterations - clearing the queue -, pop, on_event_received hooks, process the event,
# settle), cut test translated
def translate_drain(src_root, known, known_params, known_recursive):
    fname, cls, func = "sync_interpreter.py", "SyncInterpreter", "_process_event_queue"
    text, fdef = _find_method(src_root, fname, cls, func)
    src = f"{fname}:{func}"
    body = [st for st in fdef.body if not _is_logger(st) and not (isinstance(st, ast.Expr) and isinstance(st.value, ast.Constant))]

    def bad(why):
        raise Untranslatable(f"{src}: drain loop: {why}")
    if len(body) != 5 or ast.unparse(body[0]) != "if self._is_processing:\n    return" or ast.unparse(body[1]) != "self._is_processing = True" \
            or ast.unparse(body[2]) != "processed = 0" or ast.unparse(body[3]) != "limit = getattr(self.machine, 'max_iterations', 1000)" \
            or not isinstance(body[4], ast.Try) or body[4].handlers or body[4].orelse:
        bad("expected the re-entrancy guard, the counter, the limit and a try / finally")
    fin = [st for st in body[4].finalbody if not _is_logger(st)]
    if [ast.unparse(x) for x in fin] != ["self._is_processing = False"]:
        bad("the finally block must only clear the re-entrancy flag")
    tb = [st for st in body[4].body if not _is_logger(st)]
    if len(tb) != 1 or not isinstance(tb[0], ast.While) or ast.unparse(tb[0].test) != "self._event_queue" or tb[0].orelse:
        bad("expected `while self._event_queue:`")
    lb = [st for st in tb[0].body if not _is_logger(st)]
    want_tail = ["current_event = self._event_queue.popleft()",
                 "for plugin in self._plugins:\n    plugin.on_event_received(self, current_event)",
                 "self._process_event(current_event)", "self._process_transient_transitions()"]
    if len(lb) != 6 or ast.unparse(lb[0]) != "processed += 1" or not isinstance(lb[1], ast.If) or lb[1].orelse \
            or [ast.unparse(x) for x in lb[1].body if not _is_logger(x)] != ["self._event_queue.clear()", "break"] \
            or [ast.unparse(x) for x in lb[2:]] != want_tail:
        bad("expected `processed += 1; if <cut>: clear the queue; break; pop; on_event_received hooks; process the event; settle`")
    synth = ast.FunctionDef(name=func, args=ast.arguments(posonlyargs=[], args=[ast.arg(arg="self"), ast.arg(arg="processed"), ast.arg(arg="limit")],
                                                           kwonlyargs=[], kw_defaults=[], defaults=[]),
                            body=[ast.Return(value=lb[1].test)], decorator_list=[], lineno=fdef.lineno)
    ast.fix_missing_locations(synth)
    fn = TreeFn(synth, dict(func=func, coqname="drain_cut_sync", params=[("processed", "nat"), ("limit", "nat")], ret="bool", needs=[]), src, known)
    seg = ast.get_source_segment(text, fdef) or ""
    return (f"(* {fname} :: {func}  sha256[:16]={hashlib.sha256(seg.encode()).hexdigest()[:16]}: shape checked; the cut test of the drain loop *)\n"
            + fn.translate())


# ---------------------------------------------------------------------------------------------------------------------
# the consumer loop of the asyncio engine (_run_event_loop): shape of one iteration checked (dequeue; chain breaker: log, reset
# the counter, drop the event; on_event_received hooks; process the event and settle with the counter remembered; reset the
# counter if the step raised nothing; an exception of the step is logged and the interpreter keeps running), both tests translated
def translate_async_loop(src_root, known, known_params, known_recursive):
    fname, cls, func = "interpreter.py", "Interpreter", "_run_event_loop"
    text, fdef = _find_method(src_root, fname, cls, func)
    src = f"{fname}:{func}"

    def bad(why):
        raise Untranslatable(f"{src}: consumer loop: {why}")
    loops = [n for n in ast.walk(fdef) if isinstance(n, ast.While)]
    if len(loops) != 1 or ast.unparse(loops[0].test) != "self.status == 'running'":
        bad("expected one `while self.status == 'running':`")
    lb = [st for st in loops[0].body if not _is_logger(st)]
    if len(lb) != 5 or ast.unparse(lb[0]) != "event = await self._event_queue.get()" or not isinstance(lb[1], ast.If) or lb[1].orelse \
            or [ast.unparse(x) for x in lb[1].body if not _is_logger(x)] != ["self._raise_depth = 0", "self._event_queue.task_done()", "continue"] \
            or ast.unparse(lb[2]) != "for plugin in self._plugins:\n    plugin.on_event_received(self, event)" \
            or not isinstance(lb[3], ast.Try) or ast.unparse(lb[4]) != "self._event_queue.task_done()":
        bad("expected `event = await queue.get(); if <chain too long>: reset, task_done, continue; hooks; try: <step>; task_done`")
    tr = lb[3]
    tb = [st for st in tr.body if not _is_logger(st)]
    if len(tb) != 4 or [ast.unparse(x) for x in tb[:3]] != ["self._processing = True", "depth_before = self._raise_depth",
                                                               "await self._process_event_and_transient_transitions(event)"] \
            or not isinstance(tb[3], ast.If) or tb[3].orelse or [ast.unparse(x) for x in tb[3].body] != ["self._raise_depth = 0"]:
        bad("expected the step: _processing = True; depth_before = _raise_depth; process event and settle; if <nothing raised>: reset")
    if [ast.unparse(x) for x in tr.finalbody if not _is_logger(x)] != ["self._processing = False"] or len(tr.handlers) != 2 \
            or ast.unparse(tr.handlers[0].type) != "asyncio.CancelledError" or ast.unparse(tr.handlers[1].type) != "Exception" \
            or [x for x in tr.handlers[1].body if not _is_logger(x)]:
        bad("expected `except CancelledError: raise / except Exception: log only / finally: _processing = False`")
    _, step = _find_method(src_root, fname, cls, "_process_event_and_transient_transitions")
    sb = [ast.unparse(x) for x in step.body if not (isinstance(x, ast.Expr) and isinstance(x.value, ast.Constant))]
    if sb != ["await self._process_event(event)", "await self._settle_transient_transitions()"]:
        bad("_process_event_and_transient_transitions is not `process the event; settle`")
    out = []
    seg = ast.get_source_segment(text, fdef) or ""
    out.append(f"(* {fname} :: {func}  sha256[:16]={hashlib.sha256(seg.encode()).hexdigest()[:16]}: shape of one iteration checked; its two tests *)")
    rename = {"self._raise_depth": "raise_depth"}
    for name, test, params in (("async_chain_cut", lb[1].test, [("raise_depth", "nat"), ("limit", "nat")]),
                               ("async_chain_reset", tb[3].test, [("raise_depth", "nat"), ("depth_before", "nat")])):
        test2 = ast.parse(ast.unparse(test).replace("self._raise_depth", "raise_depth"), mode="eval").body
        synth = ast.FunctionDef(name=func, args=ast.arguments(posonlyargs=[], args=[ast.arg(arg="self")] + [ast.arg(arg=p_) for p_, _ in params],
                                                               kwonlyargs=[], kw_defaults=[], defaults=[]),
                                body=[ast.Return(value=test2)], decorator_list=[], lineno=fdef.lineno)
        ast.fix_missing_locations(synth)
        fn = TreeFn(synth, dict(func=func, coqname=name, params=params, ret="bool", needs=[]), src, known)
        out.append(fn.translate())
    return "\n".join(out)


# ---------------------------------------------------------------------------------------------------------------------
# lifecycle tests: in which status send() drops the event, in which status stop() returns at once (both engines)
def translate_lifecycle(src_root, known):
    out = []
    for fname, cls, func, coqname in (("sync_interpreter.py", "SyncInterpreter", "send", "send_drops_sync"),
                                      ("interpreter.py", "Interpreter", "send", "send_drops_async"),
                                      ("sync_interpreter.py", "SyncInterpreter", "stop", "stop_returns_sync"),
                                      ("interpreter.py", "Interpreter", "stop", "stop_returns_async"),
                                      ("base_interpreter.py", "BaseInterpreter", "_fail", "fail_ignored"),
                                      ("base_interpreter.py", "BaseInterpreter", "_complete", "complete_ignored")):
        text = open(os.path.join(src_root, fname), encoding="utf-8").read()
        module = ast.parse(text)
        cands = []
        for n in module.body:
            if isinstance(n, ast.ClassDef) and n.name == cls:
                cands = [f for f in n.body if isinstance(f, (ast.FunctionDef, ast.AsyncFunctionDef)) and f.name == func
                         and not any(ast.unparse(d) == "overload" for d in f.decorator_list)]
        if len(cands) != 1:
            raise Untranslatable(f"{fname}: {func}: expected exactly one implementation")
        fdef = cands[0]
        src = f"{fname}:{func}"
        body = [st for st in fdef.body if not _is_logger(st) and not (isinstance(st, ast.Expr) and isinstance(st.value, ast.Constant))]
        first = body[0] if body else None
        if not (isinstance(first, ast.If) and not first.orelse and [ast.unparse(x) for x in first.body if not _is_logger(x)] == ["return"]
                and "self.status" in ast.unparse(first.test)):
            raise Untranslatable(f"{src}: expected the method to start with `if <test on self.status>: return`")
        for st in body[1:]:
            for n in ast.walk(st):
                if func == "send" and isinstance(n, ast.Return):
                    raise Untranslatable(f"{src}: a second way out of send()")
        test = ast.parse(ast.unparse(first.test).replace("self.status", "status"), mode="eval").body
        synth = ast.FunctionDef(name=func, args=ast.arguments(posonlyargs=[], args=[ast.arg(arg="self"), ast.arg(arg="status")],
                                                               kwonlyargs=[], kw_defaults=[], defaults=[]),
                                body=[ast.Return(value=test)], decorator_list=[], lineno=fdef.lineno)
        ast.fix_missing_locations(synth)
        fn = TreeFn(synth, dict(func=func, coqname=coqname, params=[("status", "str")], ret="bool", needs=[]), src, known)
        seg = ast.get_source_segment(text, fdef) or ""
        out.append(f"(* {fname} :: {cls}.{func}  sha256[:16]={hashlib.sha256(seg.encode()).hexdigest()[:16]}: the status test the method starts with *)")
        out.append(fn.translate())
    return "\n".join(out)


# ---------------------------------------------------------------------------------------------------------------------
# _schedule_state_tasks (shared by both engines): first one timer per delayed transition, in the order of the `after` map, then
# the invoked services in order; a service that is not registered raises ImplementationMissingError before it is started
def translate_schedule(src_root):
    fname, cls, func = "base_interpreter.py", "BaseInterpreter", "_schedule_state_tasks"
    text, fdef = _find_method(src_root, fname, cls, func)
    src = f"{fname}:{func}"
    body = [st for st in fdef.body if not _is_logger(st) and not (isinstance(st, ast.Expr) and isinstance(st.value, ast.Constant))]
    steps = []
    for st in body:
        if not isinstance(st, ast.For) or st.orelse:
            raise Untranslatable(f"{src}:{st.lineno}: expected only loops")
        it = ast.unparse(st.iter)
        if it == "state.after.items()":
            inner = [x for x in st.body if isinstance(x, ast.For)]
            calls = [ast.unparse(_call_of(y).func) for x in inner for y in x.body if _call_of(y) is not None and not _is_logger(y)]
            if len(inner) != 1 or ast.unparse(inner[0].iter) != "transitions" or calls != ["self._after_timer"]:
                raise Untranslatable(f"{src}:{st.lineno}: the `after` loop does not arm one timer per delayed transition")
            steps.append("SAfterTimers")
        elif it == "state.invoke":
            lb = [x for x in st.body if not _is_logger(x)]
            ok = len(lb) == 3 and ast.unparse(lb[0]) == "service_callable = self.machine.logic.services.get(invocation.src)" \
                and isinstance(lb[1], ast.If) and ast.unparse(lb[1].test) == "service_callable is None" and len(lb[1].body) == 1 \
                and isinstance(lb[1].body[0], ast.Raise) and ast.unparse(lb[1].body[0].exc).startswith("ImplementationMissingError(") \
                and _call_of(lb[2]) is not None and ast.unparse(_call_of(lb[2]).func) == "self._invoke_service"
            if not ok:
                raise Untranslatable(f"{src}:{st.lineno}: the invoke loop is not `look the service up; missing: ImplementationMissingError; start it`")
            steps.append("SServices")
        else:
            raise Untranslatable(f"{src}:{st.lineno}: loop over {it}")
    seg = ast.get_source_segment(text, fdef) or ""
    return (f"(* {fname} :: {func}  sha256[:16]={hashlib.sha256(seg.encode()).hexdigest()[:16]}: what is scheduled when a state is entered, in order *)\n"
            f"Definition schedule_skeleton : list seff := [{'; '.join(steps)}].\n")


# ---------------------------------------------------------------------------------------------------------------------
# SNAPSHOTS: what get_persisted_snapshot writes for the configuration and the history store, and how from_snapshot rebuilds
# them (BaseInterpreter, shared by both engines).  Sliced:
#   * from_snapshot must clear the active set, then run `for state_id in restore_ids:` whose body is `node = machine.get_state_by_id(
#     state_id)`; `if node: <ADD> else: raise StateNotFoundError(...)`, with restore_ids the stored "configuration" (or the older
#     "state_ids").  <ADD> - how one listed state is made active - is TRANSLATED (a function of the active set built so far and the
#     node: `restore_add`); the loop around it is emitted as the fold it is (`restore_cfg_src`: None = StateNotFoundError).
#   * the history loop must be `nodes = [get_state_by_id(nid) for nid in node_ids if get_state_by_id(nid)]; if nodes: store` over the
#     items of the stored "history" (`restore_hist_src`: unknown ids are dropped, an entry that ends up empty is not stored).
#   * context / status / output must be assigned from the snapshot's fields of the same name.
#   * get_persisted_snapshot must return a dict display whose "configuration" is the sorted ids of the active set, whose "history"
#     lists, per parent, the ids of the remembered nodes IN STORED ORDER, and whose status / context / output are the interpreter's
#     (context deep-copied); emitted as the list of field readings `persist_fields`, interpreted in Model/TreeLib.v.
PERSIST_FIELDS = {
    "status": ("self.status", "PStatus"),
    "context": ("copy.deepcopy(self.context)", "PContextCopy"),
    "configuration": ("sorted((node.id for node in self._active_state_nodes))", "PConfigSortedIds"),
    "output": ("self.output", "POutput"),
    "history": ("{parent_id: [node.id for node in nodes] for parent_id, nodes in self._history.items()}", "PHistoryInOrder"),
}
RESTORE_ASSIGNS = {"interpreter.context": "snapshot['context']", "interpreter.status": "snapshot['status']",
                   "interpreter.output": "snapshot.get('output')"}


def translate_snapshot(src_root, known, known_params, known_recursive):
    fname, cls = "base_interpreter.py", "BaseInterpreter"
    out = []
    # ---- persist
    text, fdef = _find_method(src_root, fname, cls, "get_persisted_snapshot")
    src = f"{fname}:get_persisted_snapshot"
    rets = [n for n in ast.walk(fdef) if isinstance(n, ast.Return)]
    dicts = [r for r in rets if isinstance(r.value, ast.Dict) and len(r.value.keys) > 2]
    if len(dicts) != 1:
        raise Untranslatable(f"{src}: expected exactly one returned snapshot dict")
    d = dicts[0].value
    fields = {}
    for k, v in zip(d.keys, d.values):
        if not (isinstance(k, ast.Constant) and isinstance(k.value, str)):
            raise Untranslatable(f"{src}: snapshot key that is not a string constant")
        fields[k.value] = ast.unparse(v)
    emitted = []
    for key, (want, ctor) in PERSIST_FIELDS.items():
        if fields.get(key) != want:
            raise Untranslatable(f"{src}: field {key!r} is written as `{fields.get(key)}`, expected `{want}`")
        emitted.append(ctor)
    seg = ast.get_source_segment(text, fdef) or ""
    out.append(f"(* {fname} :: get_persisted_snapshot  sha256[:16]={hashlib.sha256(seg.encode()).hexdigest()[:16]}: what the snapshot records of the interpreter's own state *)")
    out.append(f"Definition persist_fields : list pfield := [{'; '.join(emitted)}].\n")
    # ---- restore
    text, fdef = _find_method(src_root, fname, cls, "from_snapshot")
    src = f"{fname}:from_snapshot"
    body = [st for st in fdef.body if not _is_logger(st) and not (isinstance(st, ast.Expr) and isinstance(st.value, ast.Constant))]
    texts = [ast.unparse(st) for st in body]
    for tgt, val in RESTORE_ASSIGNS.items():
        if f"{tgt} = {val}" not in texts:
            raise Untranslatable(f"{src}: expected `{tgt} = {val}`")
    for st in body:
        for n in ast.walk(st):
            if isinstance(n, (ast.Assign, ast.AugAssign)) and any(ast.unparse(t).split("[")[0] in RESTORE_ASSIGNS or ast.unparse(t).startswith("interpreter._active_state_nodes")
                                                                   for t in (n.targets if isinstance(n, ast.Assign) else [n.target])):
                if ast.unparse(n) not in [f"{t} = {v}" for t, v in RESTORE_ASSIGNS.items()]:
                    raise Untranslatable(f"{src}:{n.lineno}: another assignment to a restored field: {ast.unparse(n)[:80]}")
    try:
        i_clear = texts.index("interpreter._active_state_nodes.clear()")
        i_ids = texts.index("restore_ids = snapshot.get('configuration') or snapshot['state_ids']")
    except ValueError:
        raise Untranslatable(f"{src}: expected the active set to be cleared and `restore_ids = snapshot.get('configuration') or snapshot['state_ids']`")
    loops = [(i, st) for i, st in enumerate(body) if isinstance(st, ast.For) and ast.unparse(st.iter) == "restore_ids"]
    if len(loops) != 1 or not (i_clear < i_ids < loops[0][0]):
        raise Untranslatable(f"{src}: expected one loop over restore_ids after the active set was cleared")
    for i, st in enumerate(body):
        if i != loops[0][0] and i > i_clear and "_active_state_nodes" in ast.unparse(st):
            raise Untranslatable(f"{src}:{st.lineno}: the active set is touched outside the restore loop")
    loop = loops[0][1]
    lb = [x for x in loop.body if not _is_logger(x)]
    ok = (not loop.orelse and ast.unparse(loop.target) == "state_id" and len(lb) == 2
          and ast.unparse(lb[0]) == "node = machine.get_state_by_id(state_id)"
          and isinstance(lb[1], ast.If) and ast.unparse(lb[1].test) == "node")
    if ok:
        els = [x for x in lb[1].orelse if not _is_logger(x)]
        ok = len(els) == 1 and isinstance(els[0], ast.Raise) and ast.unparse(els[0].exc).startswith("StateNotFoundError(")
    if not ok:
        raise Untranslatable(f"{src}:{loop.lineno}: the restore loop is not `node = machine.get_state_by_id(state_id); if node: ... else: raise StateNotFoundError`")

    class Sub(ast.NodeTransformer):
        def visit_Attribute(self, n):
            if ast.unparse(n) == "interpreter._active_state_nodes":
                return ast.Name(id="active", ctx=ast.Load())
            return self.generic_visit(n)
    add = [Sub().visit(x) for x in lb[1].body if not _is_logger(x)]
    for x in add:
        for n in ast.walk(x):
            if isinstance(n, (ast.Raise, ast.Return, ast.Break, ast.Continue)) or "interpreter" in ast.unparse(n) and isinstance(n, ast.Name):
                raise Untranslatable(f"{src}:{getattr(n, 'lineno', '?')}: unexpected statement in the restore loop")
    synth = ast.FunctionDef(name="from_snapshot", args=ast.arguments(posonlyargs=[], args=[ast.arg(arg="self"), ast.arg(arg="active"), ast.arg(arg="node")],
                                                                      kwonlyargs=[], kw_defaults=[], defaults=[]),
                            body=add + [ast.Return(value=ast.Name(id="active", ctx=ast.Load()))], decorator_list=[], lineno=fdef.lineno)
    ast.fix_missing_locations(synth)
    spec = dict(func="from_snapshot", coqname="restore_add", params=[("active", "nodes"), ("node", "node")], ret="nodes", needs=[])
    fn = TreeFn(synth, spec, src, known)
    fn.known_params = known_params
    fn.known_recursive = known_recursive
    seg = ast.get_source_segment(text, fdef) or ""
    out.append(f"(* {fname} :: from_snapshot  sha256[:16]={hashlib.sha256(seg.encode()).hexdigest()[:16]}: how one listed state is made active; the loop over the stored configuration *)")
    out.append(fn.translate())
    out.append("Definition restore_cfg_src (m : machine) (ids : list nat) : option (list nat) :=\n"
               "  fold_left (fun acc_ v_state_id => match acc_ with None => None | Some v_active =>\n"
               "      match get_state_by_id m v_state_id with Some v_node => Some (restore_add m v_active v_node) | None => None end end)\n"
               "    ids (Some (@nil nat)).\n")
    # ---- history of the restored interpreter
    hloops = [st for st in body if isinstance(st, ast.For) and ast.unparse(st.iter) == "(snapshot.get('history') or {}).items()"]
    if len(hloops) != 1 or ast.unparse(hloops[0].target) != "(parent_id, node_ids)":
        raise Untranslatable(f"{src}: expected one loop `for parent_id, node_ids in (snapshot.get('history') or {{}}).items()`")
    hb = [ast.unparse(x) for x in hloops[0].body if not _is_logger(x)]
    if hb != ["nodes = [machine.get_state_by_id(nid) for nid in node_ids if machine.get_state_by_id(nid)]",
              "if nodes:\n    interpreter._history[parent_id] = nodes"]:
        raise Untranslatable(f"{src}:{hloops[0].lineno}: the history loop changed: {hb}")
    for st in body:
        if st is not hloops[0] and "interpreter._history" in ast.unparse(st):
            raise Untranslatable(f"{src}:{st.lineno}: the history store is touched outside its loop")
    out.append("Definition restore_hist_src (m : machine) (h : list (nat * list nat)) : list (nat * list nat) :=\n"
               "  fold_left (fun v_H e_ => let v_nodes := filter_some (get_state_by_id m) (snd e_) in\n"
               "      if truthy_list v_nodes then hist_set v_H (fst e_) v_nodes else v_H) h (@nil (nat * list nat)).\n")
    return "\n".join(out)


def overriding_definitions(src_root=None):
    """The translated functions are the ones BOTH engines run only if no subclass overrides them."""
    src_root = src_root or REPO_SRC
    names = {s["func"] for s in SPECS} | {"_is_descendant"}
    found = []
    for fname in ("sync_interpreter.py", "interpreter.py", "helpers.py"):
        module = ast.parse(open(os.path.join(src_root, fname), encoding="utf-8").read())
        for n in ast.walk(module):
            if isinstance(n, (ast.FunctionDef, ast.AsyncFunctionDef)) and n.name in names:
                found.append(f"{fname}:{n.lineno}:{n.name}")
    return found


def regenerate(gen_dir, src_root=None):
    os.makedirs(gen_dir, exist_ok=True)
    path = os.path.join(gen_dir, "GenGeom.v")
    try:
        over = overriding_definitions(src_root)
        if over:
            raise Untranslatable("a translated function is overridden in a subclass: " + ", ".join(over))
        text = translate_all(src_root)
        status = None
    except (Untranslatable, SyntaxError, OSError) as exc:
        text = ("(* translation FAILED: %s *)\n" % str(exc).replace("*)", "* )")
                + "Definition translation_failed : True := untranslatable_source.\n")
        status = str(exc)
    old = open(path).read() if os.path.exists(path) else None
    if old != text:
        with open(path, "w") as f:
            f.write(text)
    return {"GenGeom": status}


if __name__ == "__main__":
    import sys
    try:
        print(translate_all())
    except Untranslatable as exc:
        print("FAILED", exc)
        sys.exit(1)
