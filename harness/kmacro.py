"""K-macro: whole runs through the public API (start / send) on both
engines vs Macro.sync_case / Macro.async_case evaluated inside Coq."""
from __future__ import annotations

import os
from concurrent.futures import ProcessPoolExecutor

from harness import core, impl
from harness.am import AM, ev_coq, op_coq

HEADER = "From XSM Require Import Model.Cases.\nOpen Scope string_scope.\n"


def ctx_coq(cx):
    return core.cl("(%d, (%d)%%Z)" % (v, z) for v, z in sorted((cx or {}).items()))


def ctx_seed(cx):
    return {"v%d" % v: z for v, z in (cx or {}).items()}


def impl_case(args):
    am, engine, runs, opts = args
    out = []
    for cx, events in runs:
        fn = impl.run_sync if engine == "sync" else impl.run_async
        try:
            o = dict(opts or {})
            probe = bool(o.pop("probe_can", False))
            hf = bool(o.pop("hook_faults", False))
            out.append(fn(am, events, cfg_opts=o, seed_ctx=ctx_seed(cx), probe_can=probe, hook_faults=hf))
        except BaseException as exc:  # harness-level failure: make it visible as a disagreement
            out.append([[impl.TS("harness-error"), impl.TS(type(exc).__name__ + ":" + str(exc)[:80])]])
    return out


def run_impl(cases, workers=14):
    """cases: list of (am, engine, runs, opts) -> list of list of snapshots"""
    if workers <= 1 or len(cases) < 4:
        return [impl_case(c) for c in cases]
    with ProcessPoolExecutor(max_workers=workers) as ex:
        return list(ex.map(impl_case, cases, chunksize=max(1, len(cases) // (workers * 4))))


def case_coq(i, am: AM, engine, runs, results, probe=False):
    rows = []
    for (cx, events), snaps in zip(runs, results):
        rows.append("(%s, %s, %s)" % (ctx_coq(cx), core.cl(op_coq(e) for e in events),
                                      core.cl(impl.toks_coq(s) for s in snaps)))
    return ("Definition m%d : machine := %s.\n"
            "Definition r%d := check_macro %s %s m%d %s.\n" % (i, am.to_coq(), i, "Sync" if engine == "sync" else "Async",
                                                               "true" if probe else "false", i, core.cl(rows)))


def check(cases, name, shard=25, par=14, workers=14, max_tokens=30000):
    """cases: list of (am, engine, runs[, opts]).  Returns (disagreements, stats)."""
    cases = [c if len(c) == 4 else (c[0], c[1], c[2], None) for c in cases]
    results = run_impl(cases, workers)
    # very long traces (raise storms) cost minutes inside Coq: leave them out, counted
    # a run on which the implementation hit the watchdog is inconclusive for the correspondence (wall-clock
    # dependent); it is dropped here and counted - termination is property C13's business
    impl_timeouts = 0
    timed_out_runs = []
    for i in range(len(cases)):
        am_, eng_, runs_, opts_ = cases[i]
        ok = [j for j in range(len(runs_)) if not any(len(s) == 1 and s[0][1] == "TIMEOUT" for s in results[i][j])]
        impl_timeouts += len(runs_) - len(ok)
        timed_out_runs += [(am_, eng_, runs_[j][0], runs_[j][1], opts_, results[i][j]) for j in range(len(runs_)) if j not in ok]
        if len(ok) != len(runs_):
            cases[i] = (am_, eng_, [runs_[j] for j in ok], opts_)
            results[i] = [results[i][j] for j in ok]
    keep = [i for i in range(len(cases)) if cases[i][2] and sum(len(s) for run in results[i] for s in run) <= max_tokens]
    skipped_large = len(cases) - len(keep)
    cases = [cases[i] for i in keep]
    results = [results[i] for i in keep]
    jobs = []
    for j in range(0, len(cases), shard):
        chunk = list(range(j, min(j + shard, len(cases))))
        text = HEADER + "".join(case_coq(i, cases[i][0], cases[i][1], cases[i][2], results[i], bool((cases[i][3] or {}).get("probe_can"))) for i in chunk)
        text += "Eval vm_compute in %s.\n" % core.cl("(%d, r%d)" % (i, i) for i in chunk)
        jobs.append(("%s_%04d" % (name, j // shard), text))
    outs = core.coq_eval_many(jobs, par=par)
    disagreements = []
    irreproducible = []
    runs_total = 0
    model_timeouts = 0
    import re
    for (jname, _), j in zip(jobs, range(0, len(cases), shard)):
        rc, out, _dt = outs[jname]
        if rc != 0:
            disagreements.append(dict(component="K-macro", case=None, model="coqc failed: " + out[-800:], impl=None, file=jname))
            continue
        body = re.sub(r"\s+", "", out[out.find("="):])
        found = re.findall(r"\((\d+),\(\[([0-9;]*)\],\[([0-9;]*)\]\)\)", body)
        if len(found) != min(shard, len(cases) - j):
            disagreements.append(dict(component="K-macro", case=None, impl=None, file=jname,
                                      model="could not parse coqc output: " + out[-400:]))
        for si, sbad, stmo in found:
            i = int(si)
            bad = [int(x) for x in re.findall(r"\d+", sbad)]
            model_timeouts += len(re.findall(r"\d+", stmo))
            runs_total += len(cases[i][2])
            for b in bad:
                am, engine, runs, opts = cases[i]
                # a disagreement must be replayable: the implementation is run once more on this case, alone; if that run gives other
                # tokens than the first one (a loaded host: the watchdog, a thread of the sync engine that was scheduled late), the
                # first run says nothing about the code and is counted as irreproducible instead of being reported
                try:
                    again = impl_case((am, engine, [runs[b]], opts))[0]
                except BaseException:
                    again = None
                if again is not None and again != results[i][b]:
                    irreproducible.append(i)
                    continue
                disagreements.append(dict(component="K-macro-" + engine[0], case=dict(config=am.to_config(**{k: v for k, v in (opts or {}).items() if k not in ('probe_can', 'hook_faults')}), engine=engine,
                                          ctx=runs[b][0], events=runs[b][1], case_index=i, run_index=b, opts=opts,
                                          am_b64=__import__('base64').b64encode(__import__('pickle').dumps(am)).decode()),
                                          impl=results[i][b], model="differs (rerun with --replay for the model's trace)",
                                          am=am))
    return disagreements, dict(machines=len(cases), runs=runs_total, skipped_large=skipped_large, impl_timeouts=impl_timeouts, model_out_of_fuel=model_timeouts, timed_out_runs=timed_out_runs, irreproducible_impl_runs=len(irreproducible)), results, cases


def model_trace(am: AM, engine, cx, events, name="replay", probe=False):
    """Ask Coq for the model's snapshots of one run (for replay / diagnosis)."""
    text = HEADER + "Definition m0 : machine := %s.\nEval vm_compute in (%s m0 %s %s).\n" % (
        am.to_coq(), ("sync_case " if engine == "sync" else "async_case ") + ("true" if probe else "false"), ctx_coq(cx), core.cl(op_coq(e) for e in events))
    rc, out, _ = core.coq_eval(name, text)
    return out
