"""Shared machinery: build, proof gates, Coq case evaluation, evidence,
known findings, replay files, reporting."""
from __future__ import annotations

import fcntl
import glob
import hashlib
import json
import os
import re
import subprocess
import sys
import time

ROOT = os.path.dirname(os.path.dirname(os.path.abspath(__file__)))
COQ = os.path.join(ROOT, "coq")
BUILD = os.path.join(ROOT, "build")
REPLAY_DIR = os.path.join(BUILD, "replay")
EVIDENCE_DIR = os.path.join(ROOT, "evidence")
REPO = os.environ.get("XSM_REPO", "/repo")
PY = "/venv/bin/python"

OBLIGATION_RE = re.compile(r"^\s*(Theorem|Lemma|Example|Corollary|Fact|Remark|Proposition)\s+([A-Za-z0-9_']+)", re.M)
FORBIDDEN_RE = re.compile(
    r"\b(Admitted|admit|Axiom|Axioms|Parameter|Parameters|Conjecture|Conjectures|Admit Obligations|bypass_check|"
    r"Unset Guard Checking|Unset Positivity Checking|Unset Universe Checking|type-in-type|impredicative-set)\b")
# axioms of the standard library that a theorem may depend on (DESIGN.md section 7)
ALLOWED_AXIOMS = {
    "FunctionalExtensionality.functional_extensionality_dep",
    "Coq.Logic.FunctionalExtensionality.functional_extensionality_dep",
    "functional_extensionality_dep",
    "Eqdep.Eq_rect_eq.eq_rect_eq",
    "Coq.Logic.Eqdep.Eq_rect_eq.eq_rect_eq",
}


def sh(cmd, timeout=600, cwd=None, env=None, input_=None):
    t0 = time.time()
    try:
        p = subprocess.run(cmd, shell=isinstance(cmd, str), cwd=cwd, env=env, input=input_,
                           stdout=subprocess.PIPE, stderr=subprocess.STDOUT, timeout=timeout, text=True)
        return p.returncode, p.stdout, time.time() - t0
    except subprocess.TimeoutExpired as exc:
        out = exc.stdout or ""
        if isinstance(out, bytes):
            out = out.decode("utf-8", "replace")
        return 124, out + "\n[timeout]", time.time() - t0


# --------------------------------------------------------------------------
# build
# --------------------------------------------------------------------------

def _vfiles():
    out = []
    for d in ("Model", "Proofs", "Gen", "Props"):
        out += sorted(glob.glob(os.path.join(COQ, d, "*.v")))
    return [os.path.relpath(p, COQ) for p in out]


def coq_build(jobs=16, timeout=2400):
    """Regenerate coq/Gen from the current source tree and (re)build all .vo
    files (full build, make -k so one broken file does not hide the rest).
    Returns dict(gen=..., rc=..., log=..., failed=[files])."""
    sys.path.insert(0, ROOT)
    from harness import py2coq
    os.makedirs(BUILD, exist_ok=True)
    with open(os.path.join(BUILD, ".lock"), "w") as lk:
        fcntl.flock(lk, fcntl.LOCK_EX)
        gen = py2coq.regenerate(os.path.join(COQ, "Gen"), os.path.join(REPO, "src", "xstate_statemachine"))
        from harness import py2coq_tree
        gen.update(py2coq_tree.regenerate(os.path.join(COQ, "Gen"), os.path.join(REPO, "src", "xstate_statemachine")))
        from harness import py2coq_guard
        gen.update(py2coq_guard.regenerate(os.path.join(COQ, "Gen"), os.path.join(REPO, "src", "xstate_statemachine")))
        files = _vfiles()
        listing = "\n".join(files)
        lst = os.path.join(BUILD, "vfiles.txt")
        old = open(lst).read() if os.path.exists(lst) else None
        if old != listing or not os.path.exists(os.path.join(COQ, "Makefile")):
            rc, out, _ = sh(["coq_makefile", "-f", "_CoqProject", "-o", "Makefile"] + files, cwd=COQ, timeout=120)
            if rc != 0:
                return dict(gen=gen, rc=rc, log=out, failed=["coq_makefile"])
            with open(lst, "w") as f:
                f.write(listing)
        rc, out, dt = sh(["make", "-k", "-j", str(jobs)], cwd=COQ, timeout=timeout)
        failed = re.findall(r"^File \"\./([^\"]+)\", line[^\n]*\nError", out, re.M)   # (a warning has the same first line)
        with open(os.path.join(BUILD, "make.log"), "w") as f:
            f.write(out)
        return dict(gen=gen, rc=rc, log=out, failed=sorted(set(failed)), wall=dt)


def _deps(vfile, seen=None):
    """Transitive XSM dependencies of a .v file (by its Require lines)."""
    seen = seen if seen is not None else []
    text = open(os.path.join(COQ, vfile)).read()
    for m in re.finditer(r"From XSM Require (?:Import|Export)([^.]*(?:\.[A-Za-z][^.]*)*)\.", text):
        for mod in re.findall(r"([A-Z][A-Za-z0-9_]*\.[A-Z][A-Za-z0-9_]*)", m.group(1)):
            f = mod.replace(".", "/") + ".v"
            if f not in seen and os.path.exists(os.path.join(COQ, f)):
                seen.append(f)
                _deps(f, seen)
    return seen


def forbidden_scan():
    bad = []
    for f in _vfiles():
        text = open(os.path.join(COQ, f)).read()
        text_nc = re.sub(r"\(\*.*?\*\)", "", text, flags=re.S)
        for m in FORBIDDEN_RE.finditer(text_nc):
            bad.append(f"{f}: {m.group(0)}")
        for m in re.finditer(r"^\s*(Variable|Variables|Hypothesis|Hypotheses|Context)\b", text_nc, re.M):
            # allowed only inside a Section
            before = text_nc[:m.start()]
            if before.count("Section ") <= len(re.findall(r"^\s*End\s", before, re.M)):
                bad.append(f"{f}: top-level {m.group(1)}")
    return bad


def proof_status(pid, build):
    """Compile Props/<pid>.v afresh, parse its Print Assumptions output and
    count obligations in it and its transitive Proofs/ dependencies."""
    props = f"Props/{pid}.v"
    deps = _deps(props)
    files = [props] + deps
    obligations = {}
    for f in files:
        if f.startswith(("Props/", "Proofs/")):
            names = [m.group(2) for m in OBLIGATION_RE.finditer(open(os.path.join(COQ, f)).read())]
            obligations[f] = names
    broken = [f for f in deps if not _vo_fresh(f)]
    res = dict(file=props, deps=deps, broken=[], axioms=[], assumptions_ok=False, obligations=0, discharged=0,
               theorems=[], log="")
    rc, out, _ = sh(["coqc", "-Q", ".", "XSM", props], cwd=COQ, timeout=600)
    res["log"] = out[-4000:]
    if rc != 0:
        broken.append(props)
    res["broken"] = broken
    # Print Assumptions blocks
    axioms = []
    blocks = re.split(r"(?=Closed under the global context|Axioms:)", out)
    n_closed = out.count("Closed under the global context")
    for b in blocks:
        if b.startswith("Axioms:"):
            for m in re.finditer(r"^([A-Za-z_][A-Za-z0-9_.']*)\s*:", b[len("Axioms:"):], re.M):
                axioms.append(m.group(1))
    n_print = len(re.findall(r"^\s*Print Assumptions", open(os.path.join(COQ, props)).read(), re.M))
    n_thm = len([1 for m in OBLIGATION_RE.finditer(open(os.path.join(COQ, props)).read()) if m.group(1) == "Theorem"])
    res["axioms"] = sorted(set(axioms))
    unknown_ax = [a for a in res["axioms"] if a not in ALLOWED_AXIOMS]
    n_blocks = n_closed + sum(1 for b in blocks if b.startswith("Axioms:"))
    res["assumptions_ok"] = (rc == 0 and not unknown_ax and n_blocks == n_print and n_print >= n_thm)
    if rc == 0 and n_print < n_thm:
        res["broken"].append(f"{props}: {n_thm} theorems but only {n_print} Print Assumptions")
    if unknown_ax:
        res["broken"].append(f"{props}: unexpected axioms {unknown_ax}")
    forb = forbidden_scan()
    if forb:
        res["broken"] += ["forbidden: " + x for x in forb]
    total = sum(len(v) for v in obligations.values())
    done = sum(len(v) for f, v in obligations.items() if f not in broken and not any(b.startswith(f) for b in res["broken"]))
    res["obligations"] = total
    res["discharged"] = done if not res["broken"] else min(done, total - 1)
    res["theorems"] = obligations.get(props, [])
    res["ok"] = not res["broken"] and res["assumptions_ok"]
    return res


def _vo_fresh(vfile):
    v = os.path.join(COQ, vfile)
    vo = v[:-2] + ".vo"
    return os.path.exists(vo) and os.path.getmtime(vo) >= os.path.getmtime(v)


# --------------------------------------------------------------------------
# evaluating the model inside Coq
# --------------------------------------------------------------------------

def cq(s: str) -> str:
    """Coq string literal."""
    return '"' + s.replace('"', '""') + '"'


def cl(items) -> str:
    return "[" + "; ".join(items) + "]"


def coq_eval(name, text, timeout=900):
    """Compile a generated cases file; return (rc, output)."""
    d = os.path.join(BUILD, "cases")
    os.makedirs(d, exist_ok=True)
    path = os.path.join(d, name + ".v")
    with open(path, "w") as f:
        f.write(text)
    rc, out, dt = sh(f"ulimit -s unlimited 2>/dev/null; exec coqc -noglob -Q {COQ} XSM {path}", timeout=timeout, cwd=d)
    # only the printed answer matters: the compiled case file (often many MB) is thrown away at once
    for ext in (".vo", ".vok", ".vos", ".glob"):
        try:
            os.remove(os.path.join(d, name + ext))
        except OSError:
            pass
    for junk in ([os.path.join(d, "." + name + ".aux")] + ([path] if rc == 0 and name != "replay" else [])):
        try:
            os.remove(junk)          # the generated text itself is kept only when Coq rejected it
        except OSError:
            pass
    return rc, out, dt


def coq_eval_many(jobs, par=8, timeout=900):
    """jobs: list of (name, text). Runs coqc in parallel. -> {name: (rc,out)}"""
    from concurrent.futures import ThreadPoolExecutor
    res = {}
    with ThreadPoolExecutor(max_workers=par) as ex:
        futs = {name: ex.submit(coq_eval, name, text, timeout) for name, text in jobs}
        for name, fut in futs.items():
            res[name] = fut.result()
    return res


def parse_nat_pairs(out):
    """Parse `= [(1, 2); (3, 4)]` / `= []` from coqc output -> list of tuples of ints, one list per Eval."""
    results = []
    for m in re.finditer(r"=\s*(\[.*?\])\s*:\s*list", out, re.S):
        body = m.group(1)
        tuples = re.findall(r"\(([0-9,\s]+)\)", body)
        if tuples:
            results.append([tuple(int(x) for x in t.replace(" ", "").replace("\n", "").split(",")) for t in tuples])
        else:
            nums = re.findall(r"\d+", body)
            results.append([(int(n),) for n in nums])
    return results


# --------------------------------------------------------------------------
# findings, replay, evidence, reporting
# --------------------------------------------------------------------------

def load_findings():
    p = os.path.join(ROOT, "known_findings.json")
    if not os.path.exists(p):
        return dict(findings=[], fixed=[])
    return json.load(open(p))


def case_hash(obj) -> str:
    return hashlib.sha256(json.dumps(obj, sort_keys=True, default=str).encode()).hexdigest()[:12]


def write_replay(pid, payload) -> str:
    os.makedirs(REPLAY_DIR, exist_ok=True)
    h = case_hash(payload)
    path = os.path.join(REPLAY_DIR, f"{pid}-{h}.json")
    payload = dict(payload)
    payload.setdefault("property", pid)
    payload.setdefault("rerun", f"./check {pid} --replay {os.path.relpath(path, ROOT)}")
    with open(path, "w") as f:
        json.dump(payload, f, indent=1, default=str)
    return os.path.relpath(path, ROOT)


class Report:
    """Collects what a check run found; decides exit status and writes evidence."""

    def __init__(self, pid, tier, seed, level):
        self.pid, self.tier, self.seed, self.level = pid, tier, seed, level
        self.t0 = time.time()
        self.violations = []     # (replay_path, no_input_found)
        self.known = []          # strings
        self.coverage = {}
        self.assumptions = []
        self.findings = load_findings()

    def violation(self, payload, no_failing_input=False):
        path = write_replay(self.pid, payload)
        self.violations.append((path, no_failing_input))
        tail = " no-failing-input-found" if no_failing_input else ""
        print(f"VIOLATION property={self.pid} replay={path}{tail}", flush=True)

    def known_finding(self, fid, what):
        line = f"KNOWN-FINDING: property={self.pid} {fid}: {what}"
        if line not in self.known:
            self.known.append(line)
            print(line, flush=True)

    def match_known(self, signature: dict):
        """Return the finding whose signature equals `signature` for this property, else None."""
        for f in self.findings.get("findings", []):
            if f.get("property") == self.pid and f.get("signature") == signature:
                return f
        return None

    def finish(self):
        ev = dict(property_id=self.pid, tier=self.tier, seed=int(self.seed), level=self.level,
                  coverage=self.coverage, assumptions=self.assumptions,
                  wall_s=round(time.time() - self.t0, 2), violations=len(self.violations))
        ev["coverage"]["known_findings_seen"] = self.known
        os.makedirs(EVIDENCE_DIR, exist_ok=True)
        with open(os.path.join(EVIDENCE_DIR, f"{self.pid}.json"), "w") as f:
            json.dump(ev, f, indent=1, default=str)
        return 1 if self.violations else 0


TRUSTED_BASE = [
    "Coq 8.16.1 kernel (coqc); vm_compute used for Examples, _refuted witnesses and cases files; native_compute not used",
    "axioms: none (every Print Assumptions block must read 'Closed under the global context' or list only std-lib axioms named in DESIGN.md section 7)",
    "harness/py2coq.py (Python ast -> Gallina translator) and coq/Model/PyLib.v for tie T",
    "harness/*: case generators, Recorder logic, virtual-time loop, canonicalisation, monitors",
    "modelled not verified: Python runtime (dict order, sort stability, asyncio scheduling), user callables (replaced by the Recorder language)",
]


def decide(rep, proof, disagreements, monitor_failures, search, component_names=""):
    """Common verdict logic (DESIGN.md 2.5).
    proof: result of proof_status (or None when the property has no Coq part yet)
    disagreements: list of dict(component=..., case=..., model=..., impl=...)
    monitor_failures: list of dict(case=..., what=..., signature=...) found on this run's cases
    search: callable(extra_cases) -> list of monitor failures, run only when a tie is broken."""
    reported = set()

    def handle(fail):
        sig = fail.get("signature")
        kf = rep.match_known(sig) if sig is not None else None
        if kf is not None:
            rep.known_finding(kf["id"], kf["what"])
            return False
        h = case_hash(fail.get("case"))
        if h in reported:
            return True
        reported.add(h)
        if len(reported) <= 5:
            rep.violation(dict(kind="property-monitor-failure", **fail))
        return True

    unknown = False
    for f in monitor_failures:
        unknown |= handle(f)
    tie_broken = []
    if proof is not None and not proof["ok"]:
        tie_broken.append("proof: " + "; ".join(proof["broken"] or ["Print Assumptions gate failed"]))
    if disagreements:
        comps = sorted({d["component"] for d in disagreements})
        tie_broken.append("correspondence: " + ", ".join(comps) + f" ({len(disagreements)} disagreeing cases)")
    if tie_broken and not unknown:
        extra = search([d["case"] for d in disagreements]) if search else []
        for f in extra:
            unknown |= handle(f)
        if not unknown:
            rep.violation(dict(kind="tie-broken", broken=tie_broken,
                               first_disagreement=(disagreements[0] if disagreements else None),
                               proof_log=(proof["log"][-1500:] if proof is not None and not proof["ok"] else None),
                               note="no input on which the property itself fails was found; the theorem or "
                                    "correspondence named in 'broken' no longer checks"),
                          no_failing_input=True)
    rep.coverage["tie_broken"] = tie_broken
    return tie_broken
