"""Regenerates MANIFEST.json from the table below:  python -m harness.manifest"""
import json, os

ROOT = os.path.dirname(os.path.dirname(os.path.abspath(__file__)))
BASELINE = "cd /repo && /venv/bin/python -m pytest -ra -q -p no:cacheprovider --timeout=900 --continue-on-collection-errors"

NOTE = ("Trusted: Coq 8.16.1 kernel; no axioms (Print Assumptions gate: closed under the global context); "
        "harness/py2coq.py and harness/py2coq_tree.py translators + Model/PyLib.v, Model/TreeLib.v (the Coq reading of the Python primitives they emit) for the functions tied by translation; the correspondence harness "
        "(generators, Recorder logic, canonicalisation) for everything tied by differential evaluation of the model "
        "inside Coq (vm_compute) against /repo's working tree; Python runtime semantics (dict order, sort stability) modelled, not verified.")

CLAIMED = {
    "C20": dict(
        category="proof",
        text="Theorems C20_sound / C20_complete / C20_exact_found / C20_order / C20_internal_exact_only hold for ALL key lists and "
             "ALL event strings (no bound) about the function as re-translated from base_interpreter._matching_descriptors on every run "
             "(tie T, bridge lemma GenBridge.gen_matching_eq); 'a null transition consumes its event so that no ancestor's handler runs' is "
             "C20_null_forbids, stated over BOTH source-translated functions - the descriptor order and the upward walk of "
             "_collect_eligible_transitions that consults it (C20_walk_is_the_source); the hand model is additionally evaluated in Coq against the implementation on an "
             "exhaustive small scope (K-match) and the property text is re-stated as a Python monitor used to find a failing input when the tie breaks.",
        technique="Coq proof over source-translated Gallina + vm_compute correspondence",
        design_ref="DESIGN.md section 5 C20"),
}

CLAIMED["C02"] = dict(
    category="proof",
    text="Theorems over the selection model (Model/Select.v, a line-by-line model of _collect_eligible_transitions / _select_transitions / can) for ALL "
         "well-formed machines, configurations, guard oracles and events: the nominee of an active leaf is the first enabled candidate of the nearest "
         "ancestor-or-self that has one (C02_nominee_nearest_first), every selected transition is such a nominee and is selected once "
         "(C02_selected_is_nominee, C02_shared_ancestor_once), an event without nominee leaves the whole interpreter state unchanged (C02_unhandled_noop), "
         "can() is exactly 'a nominee exists' (C02_can). TIE T: _collect_eligible_transitions and _select_transitions are RE-TRANSLATED from the "
         "current source on every run (harness/py2coq_tree.py -> coq/Gen/GenGeom.v: the `while current:` walk as a Fixpoint on fuel, loops with "
         "`break` as folds carrying a flag, max(...) as the first maximal element, the nested helper _passes as a guard oracle) and proved EQUAL "
         "to the model's collect / select_with for every guard oracle that answers (C02_collect_is_the_source, C02_select_with_is_the_source, "
         "C02_select_is_the_source, C02_can_is_the_source; a MISSING guard implementation raises out of the selection and stays with the "
         "correspondence). The model is additionally tied to the code by differential evaluation inside Coq of whole runs (both engines, "
         "can() probed before every send) on selection-stress and random machines; a Python restatement of the property text is the monitor.",
    technique="Coq proof over an executable model proved equal to the source-translated selection functions (tie T) + vm_compute correspondence (K-macro)",
    design_ref="DESIGN.md section 5 C02")
CLAIMED["C06"] = dict(
    category="proof",
    text="C06_eval_bool: for every guard expression without a missing predicate, at ANY nesting depth, evaluation equals the ordinary boolean meaning with "
         "a raising predicate read as false; missing predicates reached by evaluation are errors, skipped ones are not consulted; stateIn is membership of "
         "the designated state(s); eligible candidates of a bucket are exactly the true-guard ones in order. TIE T: the and / or / not part of "
         "_is_guard_satisfied is RE-TRANSLATED from the current source on every run (harness/py2coq_guard.py -> coq/Gen/GenGuard.v: all(...) / "
         "any(...) over the recursing generator in Python's short-circuit order, exceptions in the option monad, `not` on children[0]) and "
         "proved to compute the model's evaluation at ANY nesting depth (C06_composites_are_the_source, C06_transition_guard_is_the_source); "
         "the built-in stateIn guard is tied the same way - the part of _is_state_in after the decoding of its params is re-translated "
         "(harness/py2coq.py -> coq/Gen/GenStateIn.v) and proved equal to the model's state_in on every machine and active set "
         "(C06_statein_is_the_source, C06_source_statein_spec: true exactly when a state the name designates is active); the other non-composite guards "
         "(user predicate, raise = false, missing = error) are the oracle of the composite theorem and stay with the "
         "correspondence, which also covers near-miss stateIn spellings (a target that is a suffix or prefix of a state key without being a path segment) and a guard whose value changes between two microsteps of one settle. Tied to the code by K-macro on exhaustively "
         "enumerated formulas (depth <= 2 over 10 atoms incl. falsy params) at 3 positions x 4 valuations x both operand spellings x guard/cond.",
    technique="Coq proof (structural induction on guards) + source-translated composite evaluator and stateIn test (tie T) + vm_compute correspondence",
    design_ref="DESIGN.md section 5 C06")
CLAIMED["C10"] = dict(
    category="proof",
    text="C10_is_done_spec: done-ness computed by the engine equals the declarative definition (final; compound with done active child; parallel with "
         "EVERY non-history region active and done) for all well-formed machines and configurations; a final state raises at most one done event, for "
         "the nearest done ancestor declaring onDone (C10_fire_once/_nearest); completion is idempotent with machine-level output precedence; sends are "
         "inert after completion on both engines. Stating the spec exposed a genuine defect (nested parallel regions), repaired by a fix: commit. "
         "TIE T: _is_state_done is re-translated from the current source on every run (coq/Gen/GenGeom.v: recursion on explicit fuel, the region "
         "loop with its early returns as a short-cutting fold) and proved equal to the model's is_done for every fuel "
         "(C10_doneness_is_the_source), so the spec theorem is a theorem about the source function (C10_source_doneness_spec). The DECISION of "
         "_check_and_fire_on_done - which ancestor's onDone fires, or that the machine completes - is re-translated from BOTH engines' copies "
         "(effects replaced by what they decide; the translator refuses unless the effect block queues the done event of that very ancestor "
         "with the final state's output) and equals the decision the model's fire_on_done acts on (C10_fire_decision_is_the_source_async / "
         "_sync, C10_fire_acts_on_the_decision). "
         "Tied to the code by K-macro on completion machines (all region completion orders, un-complete / re-complete, sends after completion).",
    technique="Coq proof (fuel induction against an inductive spec) over source-translated Gallina (tie T) + vm_compute correspondence",
    design_ref="DESIGN.md section 5 C10")

CLAIMED["C04"] = dict(
    category="proof",
    text="C04_sync_fifo_once: for every machine, state and bound, the sync drain loop begins the queued events in FIFO order, each exactly once, as a "
         "prefix of (queue ++ events appended by processing); processing an event never dequeues and never begins another event (C04_not_reentrant, "
         "C04_processing_only_appends - a frame theorem over ALL of entry/exit/actions/done/scheduling); the async consumer begins one event per "
         "iteration. 'Nothing is discarded' is refuted for the per-drain bound (F11) and the async chain breaker (F23) with kernel-checked witnesses; "
         "both are recorded findings. Tied to the code by K-macro with send_events bursts, raising actions and start-up raises; OS-thread "
         "interleavings beyond the deterministic scheduler's preemption points are outside the model.",
    technique="Coq proof (generic frame theorem + induction on the drain counter) + vm_compute correspondence",
    design_ref="DESIGN.md section 5 C04")
CLAIMED["C07"] = dict(
    category="proof",
    text="C07_action_fault_is_truncation: a failing user action (or built-in whose callback raises) at any position of any action list is exactly "
         "the fault-free run of the list truncated there plus the on_action_error record; no action list touches the configuration or history; "
         "C07_atomic: an external transition that aborts midway returns with the configuration it started from - for all machines, transitions and "
         "states. Hook / subscriber / listener faults have no effect in the model by construction: for them the assurance is the correspondence "
         "run with every hook raising. Tied to the code by K-macro on fault machines plus a twin-run monitor.",
    technique="Coq proof (induction on action lists; frame lemmas) + vm_compute correspondence under injected faults",
    design_ref="DESIGN.md section 5 C07")
CLAIMED["C13"] = dict(
    category="proof",
    text="The model's loops recurse on the code's own counters; theorems state the bounds: one drain begins <= maxIterations events, the eventless "
         "loop takes <= maxIterations steps, chains that stop earlier are not cut, the cut is recorded and not an error, the async chain breaker "
         "drops the next event once the raise depth exceeds the bound. The async consumer loop has explicit fuel: C13_async_fanout_refuted shows a "
         "machine on which it is still busy after 300 iterations (finding F24). Tied to the code by K-macro on self-feeding machines at / below / "
         "above the bound on both engines, with a watchdog. TIE T: the settle loop of eventless transitions (_process_transient_transitions / _settle_transient_transitions) has its shape checked on every run and its two tests - cut when the microstep counter exceeds maxIterations, go on while something eventless is selected - re-translated from the current source; that loop, around the model's select / process_event, is the model's settle (C13_settle_loop_is_the_source_sync / _async), so the bound theorems are about the loop as the source writes it; likewise the sync drain loop _process_event_queue (C13_drain_loop_is_the_source) and one iteration of the asyncio consumer loop _run_event_loop with its chain-breaker and reset tests (C13_async_step_is_the_source).",
    technique="Coq proof (structural recursion on the code's counters) + vm_compute correspondence + watchdog + source-translated settle loop tests (tie T)",
    design_ref="DESIGN.md section 5 C13")
CLAIMED["C14"] = dict(
    category="proof",
    text="C14_*_edges: for every machine, event and interpreter state, start / send / send_events / the async loop move the status only along "
         "uninitialized -> running -> (done | error) -> stopped, running -> stopped (a frame theorem through all of entry, exit, actions, services "
         "failing, settling and draining); start is idempotent while running and refuses a stopped interpreter; send is inert when not running; "
         "stop is a single edge, idempotent and leaves nothing armed; a failed async start leaves nothing armed (a defect found while proving this "
         "was repaired by a fix: commit). Liveness of OS threads / tasks after stop() is monitored through the interpreter's registries, not proved.",
    technique="Coq proof (generic frame theorem over status reachability) + vm_compute correspondence (K-life)",
    design_ref="DESIGN.md section 5 C14")

CLAIMED["C08"] = dict(
    category="proof",
    text="Timer bookkeeping model (Exec.arm / cancel / deliver over a pending list with a virtual clock). Theorems for ALL states: entering arms one "
         "timer per `after` transition, due at now+delay, owned by the entered state (C08_armed_at_entry); leaving removes every timer owned by the state "
         "and nothing else (C08_exit_cancels); on the sync engine an expiry whose owner is no longer active delivers nothing "
         "(C08_sync_rechecks_owner); an expiry only appends to the queue and fires at most once (C08_expiry_only_queues, C08_at_most_once); stop leaves nothing armed (C08_stop_silences). The statement 'an expiry of an earlier activation has no effect' is refuted for the "
         "async engine with a kernel-checked witness (C08_stale_refuted = recorded finding F8: after-events are matched by type only). Tied to the "
         "code by K-macro on a virtual clock (asyncio loop and threading.Timer replaced by deterministic virtual-time schedulers) with timed ops, "
         "re-entry before expiry, slow actions overlapping expiries; wall-clock accuracy of real timers is outside the model. TIE T: that a state's timers are cancelled BEFORE its exit actions run (asyncio engine: state by state; sync engine: all cancellations first) is read off the source - the effect skeleton of _exit_states, extracted from both engines' copies on every run, interpreted over the model's effect primitives, is the model's exit_states (C08_exit_order_is_the_source_async / _sync).",
    technique="Coq proof over executable timer-bookkeeping model + vm_compute correspondence on a virtual clock + source-extracted exit skeleton (tie T)",
    design_ref="DESIGN.md section 5 C08")
CLAIMED["C09"] = dict(
    category="proof",
    text="Service bookkeeping in the same pending-list model: entering starts one task per invoke owned by the entered state, leaving cancels them "
         "(shared theorems with C08), a completion delivers done.invoke.<id> with the service's value or error.platform.<id>, an unhandled failure "
         "fails the machine (C09_one_outcome, C09_unhandled_error_status, C09_handled_error_keeps_running, C09_missing_service_is_fatal). 'A completion from an earlier activation is ignored' is refuted "
         "with a kernel-checked witness (C09_current_activation_only_refuted = finding F9); tasks leaked by a rolled-back entry are finding F19. "
         "Tied to the code by K-macro with scripted services (duration, outcome, value) on the virtual clock, both engines; real coroutine "
         "scheduling / thread pools are outside the model. TIE T: _has_error_handler, the test both engines consult before they put the machine into the "
         "error status, is re-translated from the current source on every run and proved to be the `handled` flag every invoked service is armed with "
         "(C09_handled_test_is_the_source, C09_async / _sync_service_carries_the_source_test, C09_unhandled_per_source_test). TIE T: that a state's services are cancelled BEFORE its exit actions run is read off the source - the effect skeleton of _exit_states, extracted from both engines' copies on every run, interpreted over the model's effect primitives, is the model's exit_states (C09_exit_order_is_the_source_async / _sync).",
    technique="Coq proof over executable service-bookkeeping model + vm_compute correspondence on a virtual clock + source-extracted exit skeleton, schedule skeleton and handled-test (tie T)",
    design_ref="DESIGN.md section 5 C09")
CLAIMED["C11"] = dict(
    category="proof",
    text="For ALL machines and states: what is recorded when states are exited is, for every history-owning state on their ancestor chains with active "
         "proper descendants, exactly those descendants in (depth, id) order, and nothing else changes (C11_record_is_last_exit); a never-visited "
         "history target expands to its default target / the parent's initial child / the parallel parent itself; a visited deep target to the "
         "remembered leaves, a shallow one to the remembered children; a snapshot round trip keeps the history; every state the target expands to "
         "is active when the transition completes (C11_restored_states_active) and the configuration it leaves is legal - one leaf per region, the "
         "restored one (C11_restore_is_legal, from the history-store invariant C11_store_consistent). TIE T: _resolve_history_target and "
         "_record_history are re-translated from the current source on every run (coq/Gen/GenGeom.v) and proved equal to the model's "
         "resolve_history (as functions) and record_history (entry by entry of the store, for machines with distinct dotted-path ids) - "
         "C11_resolve_is_the_source, C11_record_is_the_source. Partial: that the restored sub-configuration "
         "equals the remembered one state by state, and 'each restored state entered once', are decided by the monitor. Tied to the code by K-macro "
         "on history machines (shallow/deep x compound/parallel parents x nested x defaults x never/once/repeatedly visited) and an independent "
         "restore oracle in the monitor.",
    technique="Coq proof over executable history model, tied to source-translated Gallina by bridge theorems (tie T) + vm_compute correspondence",
    design_ref="DESIGN.md section 5 C11")
CLAIMED["C12"] = dict(
    category="proof",
    text="For ALL machines with distinct state ids and ALL ancestor-closed states: restore(persist s) succeeds and returns the same configuration as a "
         "set, and the same history, context, status and output, with empty queue / timers / log (C12_restore_is_faithful); selection, exit order, "
         "history recording and reported configuration of the restored state equal those of the original (C12_restored_behaves_alike, via the C16 "
         "order-independence theorems); persist(restore(persist s)) = persist s (C12_resnapshot); a snapshot is rejected iff it names a state the "
         "machine lacks. C12_restored_continues_alike: for EVERY continuation (any sequence of sends, sync engine, machines without transitions into "
         "the root or into history states) the restored interpreter and the original produce identical logs, context, history, status and output "
         "and configurations equal as sets; C12_restored_continues_alike_h: the same with transitions into history states (what they restore comes "
         "from the snapshot's history section). TIE T: from_snapshot is sliced and re-translated from the current source on every run (harness/py2coq_tree.py -> "
         "coq/Gen/GenGeom.v): the statements that make ONE listed state active, with their parent-chain walk (restore_add), the loop over the stored "
         "configuration with its StateNotFoundError (restore_cfg_src) and the rebuilding of the history store (restore_hist_src) are proved equal to the "
         "model's restore (C12_restore_step_is_the_source, C12_restore_cfg_is_the_source, C12_restore_history_is_the_source, C12_restore_is_the_source); the round trip is also stated over the SOURCE pieces only (C12_source_round_trip: what the sliced get_persisted_snapshot writes, fed to the translated from_snapshot, gives back configuration, history lookups, context, status, output); "
         "the five fields get_persisted_snapshot writes of the interpreter's own state are sliced from the returned dict and proved to denote the model's "
         "persist (C12_persist_is_the_source); the slicer refuses when the active set or the history store is touched anywhere else in from_snapshot. "
         "Partial: async continuations are checked by correspondence (every "
         "cut point k of random runs, restored vs uninterrupted, K-snap); JSON validity, isolation from later execution and corrupt-stream "
         "rejection are runtime monitors; child actors are outside Snap.v.",
    technique="Coq proof (sorting canonical under permutation; restore/persist round trip; whole continuations) over a model proved equal to the source-translated restore loop and persisted fields (tie T) + vm_compute correspondence (K-snap) + restore-vs-uninterrupted runs",
    design_ref="DESIGN.md section 5 C12")
CLAIMED["C16"] = dict(
    category="proof",
    text="Oracle independence, for ALL machines with distinct state ids and ALL listings of the same active set: the selected transitions and their "
         "order, can(), the exit order, what history remembers (hence restored entry order), guard values and the reported configuration do not "
         "depend on the iteration order of the active set, because each is a membership test or a sort with a strict total order "
         "(C16_sort_canonical and its instances); C16_event_oracle_independent / C16_runs_oracle_independent lift this to whole events and whole runs: "
         "two states differing only in the listing order of the active set are taken by any sequence of sends to states that again differ only in "
         "that order, with IDENTICAL logs - a relational proof through selection, exit, actions, history, entry, done events, scheduling and "
         "rollback; the one order-sensitive read (the active child in the done-ness check) is harmless because the configuration is then contained "
         "in a legal one; the _h variants cover machines with transitions to history states (where the restored entry order was defect F3). "
         "The model being a function, equal inputs give equal traces. Tied to the code by K-macro and by "
         "re-running the implementation in subprocesses under different PYTHONHASHSEED values / heap layouts / both engines with byte-for-byte trace "
         "comparison. Generated identifiers and actor ids are only covered by the subprocess comparison. TIE T: the regions of a parallel state entered by default are, in both engines' _enter_states as re-translated from the current source, the children in DOCUMENT order minus history children and the regions the entry list names - a filter of an ordered list, no set (C16_regions_entered_in_document_order).",
    technique="Coq proof (permutation invariance via canonical sorting) + vm_compute correspondence + hash-seed subprocess differential + source-translated default descent (tie T)",
    design_ref="DESIGN.md section 5 C16")

CLAIMED["C01"] = dict(
    category="proof",
    text="THE INVARIANT IS PROVED for whole runs of both engines, FOR TRANSITIONS TO ANY STATE (the machine root and history pseudo-states "
         "included): C01_sync_runs_stay_legal_h / C01_async_runs_stay_legal_h - "
         "for EVERY well-formed machine whose compound states declare a non-history initial child and whose targeted history pseudo-states have "
         "a default target (if any) below their parent (four decidable side conditions), if start() does "
         "not fail then after ANY sequence of events the configuration is legal and every remembered history list is the set of proper descendants "
         "of its parent in some legal configuration. Transitions to history states (deep / shallow, recorded / never recorded, domain = the parent or "
         "any ancestor, compound or parallel) are covered by C01_history_transition_preserves_legality: the combined entry path is a tree below the "
         "domain whose entered set is, below each root, a complete sub-configuration (C01_tree_entry_legal); C01_history_store_invariant keeps the "
         "history store consistent across completed and aborted transitions. The special case without history targets is C01_sync_runs_stay_legal / "
         "C01_async_runs_stay_legal. The side conditions are NECESSARY: `initial` naming a history pseudo-state, a history default target that is a "
         "history pseudo-state or lies outside the parent each make the code at HEAD leave an illegal configuration (kernel-checked witnesses, "
         "recorded findings F35-F37, found while proving the history case). TIE T: _is_descendant, the string test on ids by which the engine "
         "decides ancestry, is re-translated from source on every run and proved equal to the model's tree test for machines with distinct "
         "dotted-path ids (C01_ancestry_oracle_is_the_source; the condition is evaluated in Coq for the machines of this check). "
         "TIE T (geometry): the state-tree functions the engine decides transitions with - _find_transition_domain, _compute_states_to_exit, _get_path_to_state, _get_ancestors, _resolve_history_target, _record_history, _is_state_done (and _is_descendant) - are RE-TRANSLATED from the current source on every run by harness/py2coq_tree.py (a fail-closed translator for tree-walking Python: while-loops over parent chains become Fixpoints on explicit fuel, sets become duplicate-free lists, early returns become short-cutting folds) into coq/Gen/GenGeom.v and proved EQUAL to the model functions the theorems are stated over (Proofs/GeomBridge.v); "
         "here: C01_domain_is_the_source, C01_exit_set_is_the_source (+ _of_whole_machine), C01_entry_path_is_the_source, and - composing them "
         "the way _execute_transition does - C01_transition_is_the_source: one external transition run with the SOURCE's domain / exit set / entry "
         "path / history expansion / combined path equals the model's exec_external out of every legal configuration, so legality preservation "
         "holds of the transition as the source computes it (C01_source_transition_preserves_legality, "
         "C01_source_history_transition_preserves_legality, C01_source_root_transition_restarts). The PLAN itself (domain, exit order, entry path, "
         "combined path) is sliced out of the effects of _execute_transition (asyncio engine) and SyncInterpreter._process_single_transition on "
         "every run; both engines plan alike (C01_engines_plan_alike) and exec_external_src executes that plan. One whole EVENT processed with "
         "the source's selection and plans equals the model's process_event on every state satisfying the run invariant, when no guard "
         "implementation is missing (C01_event_step_is_the_source, C01_source_event_preserves_legality). Default descent - what _enter_states "
         "enters below one state, in both engines' copies - is translated as a decision and proved to be the one the model's enter_one acts "
         "on (C01_descent_is_the_source_async / _sync, C01_entry_acts_on_the_decision). "
         "Built from C01_initial_configuration_legal (induction over the default descent), C01_transition_effect (closed formula: configuration "
         "after a transition = before minus the exit list plus the entered set), C01_transition_preserves_legality (a replacement lemma over the "
         "state tree, for compound and parallel domains) and C01_event_preserves_legality (also when a transition aborts: rollback); "
         "C01_legal_is_the_definition ties the boolean test used everywhere to the property's five clauses. A transition to the machine root "
         "restarts the machine (C01_root_transition_restarts; former finding F5 - everything exited, nothing entered - is repaired in /repo). "
         "Partial: a history state whose default "
         "target is not a proper descendant of its parent is outside the theorems and decided by the correspondence (legality evaluated in Coq at "
         "every hook / subscriber / snapshot point of every generated run: exhaustive small trees x all source/target pairs x both engines x pure "
         "API) - which is how the defect repaired by the latest fix: commit (history child of an active parallel state targeted from inside it) was found.",
    technique="Coq proof (induction over runs: default descent, transition effect formula, subtree / tree replacement lemmas, history-store invariant) + source-translated transition geometry and ancestry oracle (tie T: py2coq / py2coq_tree, bridge theorems) + vm_compute correspondence (K-macro) + monitor",
    design_ref="DESIGN.md section 5 C01 and section A.3")
CLAIMED["C03"] = dict(
    category="proof",
    text="C03_phases_and_event_identity: for ALL machines, transitions, events, states and both engines, the record of a successful external transition "
         "is an exit segment containing no entry, then the transition's actions with neither, then an entry segment containing no exit, and every "
         "user action in all three - including states reached by default descent - received the causing event; states are left in the order of the "
         "exit list, which is deepest first; the entry path is outermost first; the exit set is confined to the transition domain (sibling regions "
         "untouched); targetless transitions run actions only. EXACTLY-ONCE ACCOUNTING: C03_transition_log - the OLeave records of a completed "
         "transition are exactly its exit list and its OEnter records exactly the entered set of its entry path(s), in order; "
         "C03_exactly_once_accounting - out of a legal configuration (target neither root nor history) both lists are duplicate-free, only active "
         "states are left, no state is entered while active, and a state is active afterwards iff it (was active and was not left) or was entered, "
         "i.e. entries minus exits = change in activity; C03_history_exactly_once_accounting: the same for transitions to history pseudo-states "
         "(the entered states form a tree below the domain whose entered list is duplicate-free), under the history-store invariant every run "
         "maintains (former finding F21 there is repaired in /repo). TIE T (geometry): the state-tree functions the engine decides transitions with - _find_transition_domain, _compute_states_to_exit, _get_path_to_state, _get_ancestors, _resolve_history_target, _record_history, _is_state_done (and _is_descendant) - are RE-TRANSLATED from the current source on every run by harness/py2coq_tree.py (a fail-closed translator for tree-walking Python: while-loops over parent chains become Fixpoints on explicit fuel, sets become duplicate-free lists, early returns become short-cutting folds) into coq/Gen/GenGeom.v and proved EQUAL to the model functions the theorems are stated over (Proofs/GeomBridge.v); "
         "here: C03_domain_is_the_source, C03_exit_set_is_the_source, C03_entry_path_is_the_source, C03_transition_is_the_source (the whole "
         "transition with the source's geometry = the model's, out of a legal configuration). ORDER OF EFFECTS: the effect skeletons of "
         "_exit_states and _enter_states are extracted from both engines' copies on every run (for _enter_states every path through the loop body "
         "must agree with one total order of add / entry actions / schedule / done check / descent) and, interpreted over the model's effect "
         "primitives, are exit_states and enter_one (C03_exit_order_is_the_source_async / _sync, C03_entry_order_is_the_source_async / _sync). "
         "Partial: the theorems are per transition (every transition of every run, by the "
         "C01 run invariant); timer / service non-interference of sibling regions follows only for what is cancelled.",
    technique="Coq proof (log-segment invariants through entry / exit / actions; sortedness; entered-set characterisation over the state tree) + source-translated transition geometry (tie T) + vm_compute correspondence (K-macro) + monitor",
    design_ref="DESIGN.md section 5 C03")
CLAIMED["C05"] = dict(
    category="proof",
    text="C05_microstep_agrees: for every machine whose invoked services are registered, every event and every pair of interpreter states that agree "
         "on configuration, history and context, processing the event on the sync and on the async engine yields states that again agree on those, "
         "and raises the same error or none - a relational (two-run) proof through selection, exit, actions, entry, done events, scheduling and "
         "rollback, i.e. through every place where the implementation duplicates code per engine. The pure engine runs no action and schedules "
         "nothing by definition. The ordered action log differs between engines in model and code alike where the code differs (recorded findings "
         "F12, F15a-d, F25); log agreement and agreement with the pure API are decided by the three-way differential run and K-pure.",
    technique="Coq proof (relational simulation between engine instantiations of the model) + vm_compute correspondence per engine (K-macro, K-pure) + three-way differential",
    design_ref="DESIGN.md section 5 C05")

CLAIMED["C15"] = dict(
    category="proof",
    text="Actor bookkeeping model (Model/Actors.v: target resolution order and ambiguity rule, registry, children map, service keys, delayed sends "
         "with ids / supersede / cancel, stopChild, recursive stop, spawn id scheme) with theorems for ALL system states: a resolved target is the "
         "registered actor, one of my children or my parent (C15_addressed_actor_only), systemId wins, ambiguous and unknown names resolve to nobody; "
         "a delivery changes exactly the addressed actor's inbox exactly once and nothing else, a stopped actor receives nothing; cancel(id) removes "
         "that pending send and only that one, and what is not pending never fires; stop() stops the actor and every actor in its children map, "
         "empties the map, leaves none of its delayed sends, revives nobody and is idempotent. 'stop() stops every spawned child' is REFUTED at HEAD "
         "for a child whose explicit id was reused while alive (C15_stop_cascade_refuted_for_reused_id = recorded finding F30: async engine and blocking "
         "sync spawns; a thread-managed sync child is stopped by its runner thread's poll - runner_polls, C15_runner_poll_never_revives, "
         "C15_runner_poll_touches_orphans_only - but stays in the registry, C15_reused_id_threaded_child_stopped_but_registered). Two defects found by "
         "the correspondence were repaired by fix: commits (F20 registry not cleaned by stop(), F29 sync runner pops a reused id). Tied to the code by "
         "K-actor on both engines under virtual time; handlers of different actors interleaving inside one macrostep are outside the model.",
    technique="Coq proof over executable actor-bookkeeping model + vm_compute correspondence (K-actor) + monitor",
    design_ref="DESIGN.md section 5 C15")

CLAIMED["C18"] = dict(
    category="proof",
    text="Target spellings: a Coq model of the resolver's four strategies over the tree of state keys with theorems for ALL trees and sources - "
         "'#root.path', '.rel' (relative to the parent), '.', a path below the source, a sibling key / dotted path (under exactly the side "
         "conditions the rewriter checks: not caught by the source's own subtree or key) each resolve to the state they are documented to name, and "
         "a resolved target always exists; the model is tied to resolver.py by K-resolve (every state x valid and junk spellings, evaluated in "
         "Coq). Whole configs: the machine built from a config and from each random combination of respellings (transition / action / guard-cond / "
         "always-empty-event / delay-key / omitted-initial / invoke / target forms) are extracted as labelled trees and compared in Coq - one "
         "kernel-checked certificate per pair, with the reflection theorem C18_tree_equality_reflects - and run on both engines on random event "
         "sequences. Malformed input: every subtree of a config replaced by values of every JSON type; no raw exception may escape, rejection may "
         "not depend on truthiness (monitor, not a theorem). Three raw-exception defects found this way were repaired by a fix: commit (F14).",
    technique="Coq proof (resolver model; reflected tree equality) + vm_compute correspondence (K-resolve) + per-pair translation-validation certificates + corruption monitor",
    design_ref="DESIGN.md section 5 C18")

CLAIMED["C17"] = dict(
    category="translation_validation",
    text="For every CLI run that exits 0, the machine built by the generated module (imported in a fresh process) and create_machine(json) are "
         "extracted as labelled trees and compared by the Coq kernel (vm_compute of bad_pairs): a per-output certificate which, by the proved "
         "reflection C17_tree_equality_reflects / C17_batch_certificate and C17_equal_machines_equal_runs, means equal structure and hence equal "
         "behaviour for every event sequence. Around it, harness checks of the text-level clauses: exit != 0 leaves no file; every file parses; "
         "regeneration in another process under another hash seed is byte-identical and --check is silent; import prints / creates nothing and "
         "executes no JSON string (hostile names); JSON templates bind every referenced name. Scope: random families, hostile and colliding names, "
         "Stately exports x 5 templates x sync/async x 1-/2-file. The generator at HEAD is REFUTED on guards (recorded findings F17, F17b).",
    technique="per-output translation validation decided in Coq (reflected tree equality, vm_compute) + subprocess CLI differential",
    design_ref="DESIGN.md section 5 C17")

CLAIMED["C19"] = dict(
    category="translation_validation",
    text="Abstract definitions are built through the functional, class-based and builder Python APIs and compared - as labelled trees, by the Coq "
         "kernel - with create_machine() of the config the definition denotes (written independently in the harness): first builds, second builds, "
         "builds after the first result was mutated, and a second definition reusing the same State objects; by the proved reflection "
         "(C19_tree_equality_reflects, C19_batch_certificate, C19_builds_agree) an empty answer means equal structure, hence equal behaviour for "
         "every event sequence. Discovery: for configs with composite guards nested three deep, built-ins and spawn_ directives, providers and "
         "modules implementing the required names (as written or in snake_case) must bind every name; removing any one name must raise "
         "ImplementationMissingError at creation; a user action named like a built-in must be the one that runs (harness checks). The DSL at HEAD "
         "is REFUTED where states are not identifiable by bare name (recorded finding F16).",
    technique="per-pair translation validation decided in Coq (reflected tree equality, vm_compute) + discovery differential",
    design_ref="DESIGN.md section 5 C19")

PENDING_REASON = "not claimed yet: the check for this property is still being built in this round (DESIGN.md section 5 has the plan)"


def main():
    props = [json.loads(l) for l in open(os.path.join(ROOT, "properties.jsonl"))]
    checks, na = [], []
    for p in props:
        pid = p["id"]
        if pid in CLAIMED:
            c = CLAIMED[pid]
            checks.append(dict(
                property_id=pid,
                quick_cmd=f"./check {pid} --tier quick",
                thorough_cmd=f"./check {pid} --tier thorough",
                evidence_file=f"evidence/{pid}.json",
                replay_cmd_template=f"./check {pid} --replay {{path}}",
                engine="coq-model",
                level_claimed=dict(category=c["category"], text=c["text"], design_ref=c["design_ref"]),
                level_note=c.get("note", NOTE),
                technique=c["technique"]))
        else:
            na.append(dict(property_id=pid, reason=NA.get(pid, PENDING_REASON)))
    m = dict(
        version=1,
        setup_cmd="./setup.sh",
        hooks=dict(guard="XSM_VERIF", enable="none needed: the harness patches module namespaces (virtual-time loop, "
                   "deterministic threads) in its own process; no source hook is compiled in",
                   baseline_off_cmd=BASELINE, source_commits=[], add_only=True),
        engines=[dict(name="coq-model", path="coq/", serves_properties=sorted(CLAIMED),
                      kind_free_text="Coq 8.16 development: executable Gallina model (coq/Model), proofs (coq/Proofs), "
                                     "one statement file per property (coq/Props), source-translated leaf functions (coq/Gen); "
                                     "tied to /repo by harness/ (translator + differential evaluation)")],
        checks=checks,
        not_applicable=na,
        notes="See DESIGN.md. known_findings.json lists genuine defects recorded rather than repaired.")
    with open(os.path.join(ROOT, "MANIFEST.json"), "w") as f:
        json.dump(m, f, indent=1)
    print("claimed:", sorted(CLAIMED), "not claimed:", [x["property_id"] for x in na])


NA = {}

if __name__ == "__main__":
    main()
