"""C02 - selection: deepest handler, first enabled candidate, once per region;
unhandled events are no-ops; can() predicts without changing anything."""
from __future__ import annotations

import itertools
import random

from harness import core, spec
from harness import am as AMm
from harness.am import AM, Node, Trans
from harness.props import common

LEVEL = "proof"


def monitor(am, engine, cx, events, snaps):
    out = []
    tmap = {t.tid: t for t in am.all_trans()}
    for k, ev in enumerate(events, start=1):
        if k >= len(snaps) or "special" in snaps[k] or "special" in snaps[k - 1]:
            break
        pre, post = snaps[k - 1], snaps[k]
        if pre["status"] != 1 or pre["queue"]:
            continue
        ctx = {v: z for v, z in enumerate(pre["ctx"])}
        new = post["log"][len(pre["log"]):]
        L = spec.spec_select(am, pre["cfg"], ctx, ev)
        can = [o[1] for o in new if o[0] == "can"]
        begins = [i for i, o in enumerate(new) if o[0] == "begin"]
        if not begins:
            continue
        end = begins[1] if len(begins) > 1 else len(new)
        bracket = [o for o in new[begins[0] + 1:end] if o[0] != "clock"]     # (the clock stamp of the event is not an effect)
        fired = [o[1] for o in bracket if o[0] == "trans"]
        if can and can[0] != (1 if L not in ([], "ERR") else 0):
            out.append(("can(%r) answered %s but the nominee set is %s" % (ev[0], bool(can[0]), L),
                        dict(kind="can-mismatch")))
        if L == "ERR":
            if fired:
                out.append(("a transition fired although a missing guard had to be reported: fired=%s" % fired, None))
            continue
        if not L:
            # only eventless (always) follow-ups of the settle phase may run after an unhandled event
            settle_only = all(tmap[t].event == "" for t in fired if t in tmap)
            if fired and settle_only:
                continue
            if bracket and not all(o[0] in ("err",) for o in bracket):
                out.append(("event %r has no nominee in configuration %s but the interpreter did something: %s"
                            % (ev[0], pre["cfg"], bracket[:6]), None))
            elif len(begins) == 1 and (post["cfg"] != pre["cfg"] or post["ctx"] != pre["ctx"] or post["hist"] != pre["hist"]):
                out.append(("unhandled event %r changed configuration/context/history" % ev[0], None))
            continue
        if any(o[0] == "err" for o in bracket):
            continue  # an aborted transition: C07's business
        if not fired:
            out.append(("nominees %s for %r in %s but nothing fired" % (L, ev[0], pre["cfg"]), None))
            continue
        # fired = A ++ B, A an order-preserving sub-sequence of L starting with L[0], B eventless follow-ups
        i = 0
        pos = 0
        while i < len(fired) and fired[i] in L[pos:]:
            pos = L.index(fired[i], pos) + 1
            i += 1
        A, B = fired[:i], fired[i:]
        if not A or A[0] != L[0]:
            out.append(("first fired transition %s is not the first nominee %s (event %r, configuration %s)"
                        % (fired[:1], L[:1], ev[0], pre["cfg"]), None))
        elif any(tmap[t].event != "" for t in B if t in tmap):
            out.append(("transitions %s fired for %r but are not nominated (nominees %s, configuration %s)"
                        % ([t for t in B if t in tmap and tmap[t].event != ""], ev[0], L, pre["cfg"]), None))
    return out[:1]


def selection_machine(rng, shape):
    """Machines built to stress selection: an ancestor chain / parallel regions, each state with up to three
    guarded candidates for the same event, same-named parameterised guards, a shared-ancestor handler."""
    tid = itertools.count(1)
    mark = itertools.count(1)
    nodes = [Node(0, "m", None, "compound")]

    def add(parent, key, kind):
        n = Node(len(nodes), key, parent, kind)
        nodes.append(n)
        nodes[parent].children.append(n.idx)
        return n.idx
    if shape == "chain":
        a = add(0, "a", "compound"); b = add(a, "ab", "compound"); c = add(b, "a", "atomic")
        d = add(b, "ab", "atomic"); e = add(0, "b", "atomic")
        nodes[0].initial = a; nodes[a].initial = b; nodes[b].initial = c
        holders = [c, b, a, 0]
    else:
        p = add(0, "a", "parallel")
        rs = []
        for key in ("r", "rx", "s")[: 2 + rng.randint(0, 1)]:
            r = add(p, key, "compound")
            x = add(r, "a", "atomic"); y = add(r, "ab", "atomic")
            nodes[r].initial = x
            rs.append(r)
        e = add(0, "b", "atomic")
        nodes[0].initial = p
        holders = [nodes[r].children[0] for r in rs] + rs + [p, 0]
    am = AM(nodes, max_iter=6)
    real = [x.idx for x in nodes]
    for s in holders:
        if rng.random() < 0.75:
            ts = []
            for _ in range(rng.choice([1, 2, 3])):
                g = None
                r = rng.random()
                if r < 0.6:
                    g = ("ge", rng.randint(0, 1), rng.randint(0, 2))
                elif r < 0.7:
                    g = ("raises", next(mark))
                elif r < 0.8:
                    g = ("not", ("ge", rng.randint(0, 1), rng.randint(1, 2)))
                tgt = rng.choice([None] + [x for x in real if x != 0])
                ts.append(Trans(next(tid), s, "E", tgt, guard=g, actions=[("mark", next(mark))]))
            if rng.random() < 0.1:
                ts = [Trans(next(tid), s, "E", None, forbidden=True)]
            nodes[s].on.append(("E", ts))
        if rng.random() < 0.25:
            nodes[s].on.append(("*", [Trans(next(tid), s, "*", rng.choice([None] + real[1:]), actions=[("mark", next(mark))])]))
    return am


def selection_family(rng, n, engines=("sync", "async")):
    cases = []
    for i in range(n):
        am = selection_machine(rng, "chain" if i % 2 == 0 else "par")
        runs = []
        for v0, v1 in itertools.product((0, 1, 2), (0, 1, 2)):
            runs.append(({0: v0, 1: v1}, [("E", "plain", 1), ("E", "plain", 2), ("Z", "plain", 3)]))
        cases.append((am, engines[i % 2], runs, dict(probe_can=True)))
    return cases


def families(tier, rng):
    big = tier == "thorough"
    fams = [("sel", selection_family(rng, 500 if big else 90),
             "selection-stress machines (ancestor chains and 2-3 parallel regions, <=3 guarded candidates per state, "
             "same-named parameterised guards, forbidden entries, wildcards) x all 9 valuations of two context variables"),
            ("random", [(a, e, r, dict(probe_can=True)) for a, e, r, _ in common.random_family(rng, 1200 if big else 220)],
             "seeded random machines with can() probed before every send")]
    return fams


def descriptor_macro(rep, ctx, disagreements, monitor_failures):
    """Used by C20: machines whose states differ only in their descriptor key sets."""
    rng = random.Random(ctx["seed"] * 31 + 20)
    keysets = [["a.b", "a.*", "*"], ["a.*", "a.b.*", "*"], ["*"], ["a.b.c"], ["a.*"], ["done.*", "*"], ["a.b.*", "a.b"],
               ["a.b"], ["*", "a.*"], ["xstate.*", "*"], ["a.b.c.*", "a.*"]]
    events = ["a", "a.b", "a.b.c", "a.c", "b", "xstate.x", "done.state.m.a", "error.x"]
    cases = []
    mark = itertools.count(1)
    tid = itertools.count(1)
    n = 60 if ctx["tier"] == "quick" else 400
    for i in range(n):
        if i % 3 == 2:
            # a parallel state shared by two active leaves: a null transition on it (or on a region) must hide the handlers above
            # it for EVERY leaf of the step, not only for the first one that walks through it
            nodes = [Node(0, "m", None, "compound"), Node(1, "p", 0, "parallel"), Node(2, "r1", 1, "compound"), Node(3, "a", 2, "atomic"),
                     Node(4, "r2", 1, "compound"), Node(5, "a", 4, "atomic")]
            nodes[0].children = [1]; nodes[1].children = [2, 4]; nodes[2].children = [3]; nodes[4].children = [5]
            nodes[0].initial = 1; nodes[2].initial = 3; nodes[4].initial = 5
            walk = (3, 5, 2, 4, 1, 0)
        else:
            nodes = [Node(0, "m", None, "compound"), Node(1, "a", 0, "compound"), Node(2, "ab", 1, "atomic"), Node(3, "a", 1, "atomic")]
            nodes[0].children = [1]; nodes[1].children = [2, 3]; nodes[0].initial = 1; nodes[1].initial = 2
            walk = (2, 1, 0)
        am = AM(nodes, max_iter=5)
        for s in walk:
            ks = rng.choice(keysets)
            for k in ks:
                if rng.random() < (0.3 if (len(walk) > 3 and s in (1, 2)) else 0.12):
                    nodes[s].on.append((k, [Trans(next(tid), s, k, None, forbidden=True)]))
                else:
                    g = ("ge", 0, rng.randint(0, 1)) if rng.random() < 0.3 else None
                    nodes[s].on.append((k, [Trans(next(tid), s, k, None, guard=g, actions=[("mark", next(mark))])]))
        must = []
        if len(walk) > 3 and rng.random() < 0.7:
            # directed: the shared ancestor (the parallel state or one region) forbids an event that the root handles
            e0 = rng.choice(["a", "a.b", "a.b.c", "b"])
            where = rng.choice([1, 1, 2])
            nodes[where].on = [(k, ts) for k, ts in nodes[where].on if k != e0]
            nodes[where].on.insert(0, (e0, [Trans(next(tid), where, e0, None, forbidden=True)]))
            if not any(k in (e0, "*") for k, _ in nodes[0].on):
                k0 = rng.choice([e0, "*"])
                nodes[0].on.append((k0, [Trans(next(tid), 0, k0, None, actions=[("mark", next(mark))])]))
            must = [e0]
        runs = [({0: v}, [(e, "plain", j + 1) for j, e in enumerate(must + rng.sample(events, 4 - len(must)))]) for v in (0, 1)]
        cases.append((am, ("sync", "async")[i % 2], runs, dict(probe_can=True)))
    dis, fails, stats = common.run_macro_property(
        rep, ctx, "c20_descriptors", cases, monitor,
        "3-level chains, and (every third machine) a parallel state with two regions, whose states carry descriptor key sets "
        "(exact/partial/wildcard/internal-looking, some forbidden - also on the ancestor shared by both active leaves -, some guarded)")
    disagreements += dis
    monitor_failures += fails
    return stats


def run(rep, ctx):
    rng = random.Random(ctx["seed"] * 7919 + 2)
    dis_all, fail_all = [], []
    for name, cases, rule in families(ctx["tier"], rng):
        dis, fails, stats = common.run_macro_property(rep, ctx, "c02_" + name, cases, monitor, rule)
        dis_all += dis
        fail_all += fails

    def search(extra):
        more = selection_family(random.Random(ctx["seed"] + 77), 300)
        _, fails, _ = common.run_macro_property(rep, ctx, "c02_search", more, monitor, "search: 300 more selection machines")
        return fails
    core.decide(rep, ctx["proof"], dis_all, fail_all, search)


def replay(payload):
    return common.replay_macro(payload, monitor)
