"""C19 - Python-defined machines and discovered logic equal their JSON counterparts."""
from __future__ import annotations

import copy
import logging
import random
import re
import types

from harness import core, tomodel
from harness.props import c18

LEVEL = "translation_validation"
NAMES = ["idle", "load", "work", "done", "fail", "wait", "left", "right", "deep", "aux", "end", "hold", "scan", "pack", "ship", "bill",
         "open", "shut", "warm", "cool", "fast", "slow", "high", "low", "red", "blue", "one", "two", "six", "ten"]
F16 = dict(kind="dsl-differs", cause="states-referenced-by-bare-name")


# ------------------------------------------------------------------ a definition, abstractly
def dsl_spec(rng, unique=True):
    """states: nested dicts; transitions: dicts with source / target PATHS.  Everything the three styles can express."""
    pool = list(NAMES)
    rng.shuffle(pool)
    it = iter(pool)
    dup = [] if unique else ["idle", "work"]

    def act():
        return rng.choice(["log_it", "notify", "bump", "clearAll"])

    def grd():
        return rng.choice(["isReady", "can_go", "hasItems"])

    def state(depth, forced_name=None):
        name = forced_name or (rng.choice(dup) if dup and rng.random() < 0.5 and depth > 0 else next(it))
        s = dict(name=name, initial=False, final=False, parallel=False, history=None, on={}, entry=[], exit=[], after=None, invoke=None,
                 on_done=None, always=None, tags=[], meta=None, states=[])
        r = rng.random()
        if depth < 2 and r < 0.35:
            kids = []
            seen = set()
            for _ in range(2):
                k = state(depth + 1)
                if k["name"] in seen or k["name"] == name:
                    k["name"] = next(it)
                seen.add(k["name"])
                kids.append(k)
            if rng.random() < 0.3:
                s["parallel"] = True
            else:
                kids[0]["initial"] = True
                if rng.random() < 0.3:
                    kids.append(dict(name=next(it), initial=False, final=False, parallel=False, history=rng.choice(["shallow", "deep"]), on={},
                                     entry=[], exit=[], after=None, invoke=None, on_done=None, always=None, tags=[], meta=None, states=[]))
                if rng.random() < 0.3:
                    s["on_done"] = None   # filled later with a sibling target
            s["states"] = kids
        if rng.random() < 0.3:
            s["entry"] = [act() for _ in range(rng.choice([1, 2]))]
        if rng.random() < 0.2:
            s["exit"] = [act()]
        if rng.random() < 0.2:
            s["tags"] = [rng.choice(["busy", "visible"])]
        if rng.random() < 0.15:
            s["meta"] = {"label": rng.choice(["A", "B"])}
        return s
    tops = []
    if not unique:
        tops.append(state(0, "idle"))
    while len(tops) < 3:
        t = state(0)
        if t["name"] not in [x["name"] for x in tops]:
            tops.append(t)
    tops[0]["initial"] = True
    fin = dict(name=next(it), initial=False, final=True, parallel=False, history=None, on={}, entry=[], exit=[], after=None, invoke=None,
               on_done=None, always=None, tags=[], meta=None, states=[])
    tops.append(fin)
    paths = []

    def walk(s, pre):
        p = pre + (s["name"],)
        paths.append((p, s))
        for c in s["states"]:
            walk(c, p)
    for t in tops:
        walk(t, ())
    real = [(p, s) for p, s in paths if not s["history"]]
    top_names = [t["name"] for t in tops]
    # State.on / after / always / invoke: targets are plain names of TOP-LEVEL states (resolve the same from anywhere
    # when names are unique)
    for p, s in real:
        if s["final"]:
            continue
        for ev in rng.sample(["PING", "RESET", "job.done"], rng.choice([0, 0, 1])):
            s["on"][ev] = rng.choice([rng.choice(top_names), {"target": rng.choice(top_names), "actions": [act()]}, {"actions": [act()]}])
        if rng.random() < 0.12:
            s["after"] = {rng.choice([100, 500]): rng.choice(top_names)}
        if rng.random() < 0.08:
            s["always"] = {"target": rng.choice(top_names), "guard": grd()}
        if rng.random() < 0.1:
            s["invoke"] = {"src": rng.choice(["fetchUser", "save"]), "id": "inv_" + s["name"], "onDone": rng.choice(top_names), "onError": rng.choice(top_names)}
        if s["states"] and not s["parallel"] and rng.random() < 0.3:
            s["on_done"] = rng.choice(top_names)
    transitions = []
    events = ["GO", "STOP", "RETRY", "TICK"]
    for _ in range(rng.randint(2, 7)):
        (sp, ss), (tp, ts) = rng.choice(real), rng.choice(real)
        if ss["final"]:
            continue
        internal = rng.random() < 0.15
        transitions.append(dict(source=sp, event=rng.choice(events), target=None if internal else tp,
                                guard=grd() if rng.random() < 0.4 else None, actions=[act()] if rng.random() < 0.5 else [],
                                reenter=(not internal and rng.random() < 0.1), internal=internal))
    root = None
    if rng.random() < 0.4:
        root = dict(on={"EMERGENCY": rng.choice(top_names)} if rng.random() < 0.7 else {}, entry=[act()] if rng.random() < 0.3 else [],
                    exit=[], tags=["root"] if rng.random() < 0.3 else [], meta=None)
    def siblings_unique(lst):
        names = [x["name"] for x in lst]
        return len(names) == len(set(names)) and all(siblings_unique(x["states"]) for x in lst)
    if not siblings_unique(tops):
        return dsl_spec(rng, unique)
    return dict(id=rng.choice(["flow", "Order"]), context={"count": 0} if rng.random() < 0.7 else None, states=tops, transitions=transitions, root=root)


# ------------------------------------------------------------------ what the definition denotes, as JSON (written here, not with pythonic.py)
def denote(spec):
    mid = spec["id"]

    def st(s):
        d = {}
        if s["final"]:
            d["type"] = "final"
        elif s["parallel"]:
            d["type"] = "parallel"
        elif s["history"]:
            d["type"] = "history"
            d["history"] = s["history"]
        if s["entry"]:
            d["entry"] = list(s["entry"])
        if s["exit"]:
            d["exit"] = list(s["exit"])
        if s["on"]:
            d["on"] = copy.deepcopy(s["on"])
        if s["always"] is not None:
            d["always"] = copy.deepcopy(s["always"])
        if s["after"]:
            d["after"] = {str(k): v for k, v in s["after"].items()}
        if s["invoke"]:
            d["invoke"] = copy.deepcopy(s["invoke"])
        if s["on_done"] is not None:
            d["onDone"] = {"target": s["on_done"]}
        if s["tags"]:
            d["tags"] = list(s["tags"])
        if s["meta"]:
            d["meta"] = dict(s["meta"])
        if s["states"]:
            d["states"] = {c["name"]: st(c) for c in s["states"]}
            ini = [c["name"] for c in s["states"] if c["initial"]]
            if ini and not s["parallel"]:
                d["initial"] = ini[0]
        return d
    cfg = {"id": mid, "states": {s["name"]: st(s) for s in spec["states"]}}
    ini = [s["name"] for s in spec["states"] if s["initial"]]
    if ini:
        cfg["initial"] = ini[0]
    if spec["context"] is not None:
        cfg["context"] = copy.deepcopy(spec["context"])
    # every Transition object belongs to exactly ONE state - its source - and names exactly one target state
    for t in spec["transitions"]:
        node = cfg
        for k in t["source"]:
            node = node["states"][k]
        e = {}
        if t["target"] is not None:
            e["target"] = "#" + ".".join((mid,) + tuple(t["target"]))
        if t["guard"]:
            e["guard"] = t["guard"]
        if t["actions"]:
            e["actions"] = list(t["actions"])
        if t["reenter"]:
            e["reenter"] = True
        node.setdefault("on", {}).setdefault(t["event"], [])
        if not isinstance(node["on"][t["event"]], list):
            node["on"][t["event"]] = [node["on"][t["event"]]]
        node["on"][t["event"]].append(e)
    r = spec["root"]
    if r:
        if r["on"]:
            cfg["on"] = copy.deepcopy(r["on"])
        if r["entry"]:
            cfg["entry"] = list(r["entry"])
        if r["tags"]:
            cfg["tags"] = list(r["tags"])
    return cfg


# ------------------------------------------------------------------ the three Python styles
def mk_states(spec):
    from xstate_statemachine.pythonic import State
    objs = {}

    def mk(s, pre):
        kids = [mk(c, pre + (s["name"],)) for c in s["states"]]
        o = State(s["name"], initial=s["initial"], final=s["final"], parallel=s["parallel"], history=s["history"],
                  on=copy.deepcopy(s["on"]) or None, entry=list(s["entry"]) or None, exit=list(s["exit"]) or None,
                  after=copy.deepcopy(s["after"]), invoke=copy.deepcopy(s["invoke"]), on_done=s["on_done"], always=copy.deepcopy(s["always"]),
                  states=kids or None, tags=list(s["tags"]) or None, meta=copy.deepcopy(s["meta"]))
        objs[pre + (s["name"],)] = o
        return o
    tops = [mk(s, ()) for s in spec["states"]]
    return tops, objs


def mk_transitions(spec, objs, style):
    from xstate_statemachine.pythonic import transition
    out = []
    for i, t in enumerate(spec["transitions"]):
        src = objs[t["source"]]
        if t["internal"]:
            out.append(src.internal(t["event"], guard=t["guard"], actions=list(t["actions"]) or None))
        elif style == "to" or i % 2:
            out.append(src.to(objs[t["target"]], event=t["event"], guard=t["guard"], actions=list(t["actions"]) or None, reenter=t["reenter"]))
        else:
            out.append(transition(src, t["event"], objs[t["target"]], guard=t["guard"], actions=list(t["actions"]) or None, reenter=t["reenter"]))
    return out


def group_transitions(ts, rng):
    """the same transitions, in the same order, combined with the `|` operator in every association shape: `a | b | c`,
    `a | (b | c)`, `(a | b) | (c | d)`; a machine built from the groups denotes the same configuration (candidates in listed order).
    (Fifth-round seeded change C19-C made `transition | group` put the lone transition LAST.)"""
    def join(chunk):
        if len(chunk) == 1:
            return chunk[0]
        shape = rng.randrange(3)
        if shape == 0:                                   # left-associated
            g = chunk[0]
            for t in chunk[1:]:
                g = g | t
            return g
        if shape == 1:                                   # right-associated: a | (b | (c | d))
            g = chunk[-1]
            for t in reversed(chunk[:-1]):
                g = t | g
            return g
        k = rng.randrange(1, len(chunk))                 # two halves
        return join(chunk[:k]) | join(chunk[k:])
    out, i = [], 0
    while i < len(ts):
        n = rng.choice([1, 2, 3, 3, 4])
        out.append(join(ts[i:i + n]))
        i += n
    return out


def mk_root(spec):
    from xstate_statemachine.pythonic import State
    r = spec["root"]
    if not r:
        return None
    return State("", on=copy.deepcopy(r["on"]) or None, entry=list(r["entry"]) or None, tags=list(r["tags"]) or None)


def build_functional(spec, shared=None):
    from xstate_statemachine.pythonic import build_machine
    tops, objs = shared or mk_states(spec)
    return build_machine(id=spec["id"], states=tops, transitions=mk_transitions(spec, objs, "mixed"), context=copy.deepcopy(spec["context"]),
                         root=mk_root(spec))


def build_class(spec, shared=None):
    from xstate_statemachine.pythonic import StateMachine, _StateMachineMeta
    tops, objs = shared or mk_states(spec)
    ns = {"machine_id": spec["id"], "initial_context": copy.deepcopy(spec["context"])}
    for o in tops:
        ns["st_" + o.name] = o
    for i, t in enumerate(mk_transitions(spec, objs, "to")):
        ns["tr_%d" % i] = t
    r = mk_root(spec)
    if r is not None:
        ns["machine_root"] = r
    cls = _StateMachineMeta("Gen", (StateMachine,), ns)
    return cls.create_machine()


def builder_expressible(spec):
    """MachineBuilder.transition() names sources and targets by top-level name."""
    return all(len(t["source"]) == 1 and (t["target"] is None or len(t["target"]) == 1) for t in spec["transitions"])


def build_builder(spec):
    from xstate_statemachine.pythonic import MachineBuilder
    den = denote(dict(spec, transitions=[]))
    b = MachineBuilder(spec["id"])
    if spec["context"] is not None:
        b.context(copy.deepcopy(spec["context"]))
    for s in spec["states"]:
        b.state(s["name"], initial=s["initial"], final=s["final"], parallel=s["parallel"], on=copy.deepcopy(s["on"]) or None,
                entry=list(s["entry"]) or None, exit=list(s["exit"]) or None, after=copy.deepcopy(s["after"]), invoke=copy.deepcopy(s["invoke"]),
                on_done=s["on_done"], always=copy.deepcopy(s["always"]), history=s["history"], tags=list(s["tags"]) or None, meta=copy.deepcopy(s["meta"]))
        if s["states"]:
            sub = den["states"][s["name"]]
            b.child_states(s["name"], initial=sub.get("initial"), states=copy.deepcopy(sub["states"]), parallel=s["parallel"])
    for t in spec["transitions"]:
        b.transition(t["source"][0], t["event"], t["target"][0] if t["target"] else t["source"][0], guard=t["guard"], actions=list(t["actions"]) or None,
                     reenter=t["reenter"], internal=t["internal"])
    r = spec["root"]
    if r:
        props = {}
        if r["on"]:
            props["on"] = copy.deepcopy(r["on"])
        if r["entry"]:
            props["entry"] = list(r["entry"])
        if r["tags"]:
            props["tags"] = list(r["tags"])
        if props:
            b.root(**props)
    m1 = b.build()
    return b, m1


def has_duplicate_names(spec):
    seen = {}

    def walk(s, depth):
        seen.setdefault(s["name"], []).append(depth)
        for c in s["states"]:
            walk(c, depth + 1)
    for s in spec["states"]:
        walk(s, 0)
    return any(len(v) > 1 for v in seen.values())


def name_safe(spec):
    """Every state is identified by its bare name alone, and every Transition's target is reachable by that name from
    its source (its parent is the source or an ancestor of the source): the situations in which referring to states by
    bare name - which is what pythonic.py compiles to - cannot go wrong."""
    if has_duplicate_names(spec):
        return False
    for t in spec["transitions"]:
        if t["target"] is None:
            continue
        S, T = tuple(t["source"]), tuple(t["target"])
        if not (T[:-1] == S[:len(T) - 1] and len(T) - 1 <= len(S)):
            return False
    return True


def spec_case(args):
    """-> list of (label, expected_tree, actual_tree | error)"""
    spec, seed = args
    logging.disable(logging.CRITICAL)
    rng = random.Random(seed)
    out = []
    try:
        expected = tomodel.deep(c18.build(denote(spec)))
    except Exception as exc:  # noqa
        return [("denotation-rejected", None, "%s: %s" % (type(exc).__name__, str(exc)[:200]))]

    def attempt(label, fn, exp=expected):
        try:
            out.append((label, exp, tomodel.deep(fn())))
        except Exception as exc:  # noqa
            out.append((label, exp, "%s: %s" % (type(exc).__name__, str(exc)[:200])))
    attempt("functional", lambda: build_functional(spec))
    attempt("class", lambda: build_class(spec))

    def grouped(style):
        from xstate_statemachine.pythonic import build_machine, StateMachine, _StateMachineMeta
        tops, objs = mk_states(spec)
        groups = group_transitions(mk_transitions(spec, objs, "to" if style == "class" else "mixed"), random.Random(seed + 17))
        if style == "functional":
            return build_machine(id=spec["id"], states=tops, transitions=groups, context=copy.deepcopy(spec["context"]), root=mk_root(spec))
        ns = {"machine_id": spec["id"], "initial_context": copy.deepcopy(spec["context"])}
        for o in tops:
            ns["st_" + o.name] = o
        for i, t in enumerate(groups):
            ns["tr_%d" % i] = t
        r = mk_root(spec)
        if r is not None:
            ns["machine_root"] = r
        return _StateMachineMeta("Gen", (StateMachine,), ns).create_machine()
    if len(spec["transitions"]) > 1:
        attempt("functional-grouped-with-|", lambda: grouped("functional"))
        attempt("class-grouped-with-|", lambda: grouped("class"))
    if builder_expressible(spec):
        holder = {}

        def b1():
            holder["b"], m = build_builder(spec)
            return m
        attempt("builder", b1)
        if "b" in holder:
            # a second build from the same builder, after damaging the first result and the builder's inputs' copies
            def b2():
                m = holder["b"].build()
                return m
            attempt("builder-second-build", b2)
    # repeated builds from ONE set of State objects are independent of one another
    shared = mk_states(spec)

    def again():
        m1 = build_functional(spec, shared)
        # damage the first machine: later builds must not see it
        for n in m1.states.values():
            n.on.clear()
            n.tags.add("poisoned")
        return build_functional(spec, shared)
    attempt("functional-rebuild-after-mutation", again)
    # a second definition that REUSES the State objects but declares fewer transitions
    spec_b = dict(spec, transitions=[t for i, t in enumerate(spec["transitions"]) if i % 2 == 1])
    try:
        exp_b = tomodel.deep(c18.build(denote(spec_b)))
        shared2 = mk_states(spec)
        build_functional(spec, shared2)                      # definition A first
        attempt("second-definition-reusing-states", lambda: build_functional(spec_b, shared2), exp_b)
        shared3 = mk_states(spec)
        build_class(spec, shared3)
        attempt("second-class-reusing-states", lambda: build_class(spec_b, shared3), exp_b)
    except Exception as exc:  # noqa
        out.append(("second-definition-denotation", None, "%s" % type(exc).__name__))
    return out


# ------------------------------------------------------------------ logic discovery
def snake(name):
    return re.sub(r"(?<!^)(?=[A-Z])", "_", name).lower()


def discovery_config(rng):
    acts = rng.sample(["logIt", "notifyUser", "bump", "clear_all", "saveDraft"], 3)
    grds = rng.sample(["isReady", "canGo", "has_items", "isBlocked"], 3)
    svcs = rng.sample(["fetchUser", "save_all"], 1)

    def g(depth):
        r = rng.random()
        if depth == 0 or r < 0.35:
            return rng.choice(grds)
        if r < 0.55:
            return {"type": "not", "children": [g(depth - 1)]}
        if r < 0.8:
            return {"type": rng.choice(["and", "or"]), "children": [g(depth - 1), g(depth - 1)]}
        return {"type": "stateIn", "params": {"state": "#m.a"}}
    cfg = {"id": "m", "initial": "a", "context": {}, "states": {
        "a": {"entry": [acts[0], {"type": "xstate.assign", "params": {"assignment": {"k": 1}}}],
              "on": {"GO": {"target": "b", "guard": g(3), "actions": [acts[1], {"type": "log", "params": {"expr": "x"}}]},
                     "SP": {"actions": [{"type": "spawn_" + "worker"}]}},
              "after": {"100": {"target": "b", "guard": g(2)}}},
        "b": {"invoke": {"src": svcs[0], "id": "i", "onDone": {"target": "a", "actions": [acts[2]], "guard": g(2)}, "onError": "a"},
              "initial": "x", "states": {"x": {"type": "final"}}, "onDone": {"target": "a", "guard": g(1)}}}}
    m = c18.build(cfg)
    nm = tomodel.names(m)
    required = dict(actions=set(nm[0]), guards=set(nm[1]), services=set(nm[2]) | {"worker"})
    return cfg, required


def discovery_case(args):
    seed, = args
    logging.disable(logging.CRITICAL)
    rng = random.Random(seed)
    from xstate_statemachine import create_machine, MachineLogic, SyncInterpreter
    from xstate_statemachine.exceptions import ImplementationMissingError
    cfg, req = discovery_config(rng)
    out = []
    all_names = sorted(req["actions"] | req["guards"] | req["services"])
    casing = {n: rng.choice(["same", "snake"]) for n in all_names}

    def provider(skip=None, kind="provider"):
        fns = {}
        for n in all_names:
            if n == skip:
                continue
            pyname = n if casing[n] == "same" else snake(n)
            if n in req["guards"]:
                def f(self_or_ctx=None, *a, _n=n):
                    return True
            else:
                def f(*a, _n=n):
                    return None
            f.__name__ = pyname
            fns[pyname] = f
        # decoys named like built-ins and composite guards must not be required, nor harm
        if kind == "provider":
            cls = type("Prov", (), {k: (lambda fn: (lambda self, *a: fn(*a)))(v) for k, v in fns.items()})
            for k in fns:
                getattr(cls, k).__name__ = k
            return dict(logic_providers=[cls()])
        mod = types.ModuleType("gen_logic_%d" % seed)
        for k, v in fns.items():
            v.__module__ = mod.__name__
            setattr(mod, k, v)
        return dict(logic_modules=[mod])
    for kind in ("provider", "module"):
        try:
            m = create_machine(copy.deepcopy(cfg), **provider(None, kind))
            missing = dict(actions=sorted(req["actions"] - set(m.logic.actions)), guards=sorted(req["guards"] - set(m.logic.guards)),
                           services=sorted(req["services"] - set(m.logic.services)))
            if any(missing.values()):
                out.append(("discovery-incomplete", kind, "created, but the logic does not bind %s" % missing))
        except Exception as exc:  # noqa
            out.append(("discovery-rejected-complete-provider", kind, "%s: %s" % (type(exc).__name__, str(exc)[:200])))
        for skip in all_names:
            try:
                create_machine(copy.deepcopy(cfg), **provider(skip, kind))
                out.append(("missing-implementation-accepted", kind, "the %s lacks '%s' (required by the config) but create_machine() succeeded" % (kind, skip)))
            except ImplementationMissingError:
                pass
            except Exception as exc:  # noqa
                out.append(("missing-implementation-wrong-error", kind, "lacking '%s' raised %s instead of ImplementationMissingError" % (skip, type(exc).__name__)))
    # a user implementation takes precedence over a built-in of the same name
    ran = []
    cfg2 = {"id": "m", "initial": "a", "states": {"a": {"on": {"GO": {"actions": [{"type": "log", "params": {"expr": "x"}}]}}}}}
    m = create_machine(cfg2, logic=MachineLogic(actions={"log": lambda i, c, e, a: ran.append("user")}))
    it = SyncInterpreter(m).start()
    it.send("GO")
    it.stop()
    if ran != ["user"]:
        out.append(("builtin-shadows-user", "sync", "a user action named 'log' was not the one that ran: %s" % ran))
    return out, (cfg, sorted(all_names))


# ------------------------------------------------------------------ check
def run(rep, ctx):
    from concurrent.futures import ProcessPoolExecutor
    rng = random.Random(ctx["seed"] * 7919 + 19)
    big = ctx["tier"] == "thorough"
    specs = [dsl_spec(rng, unique=(i % 4 != 3)) for i in range(600 if big else 120)]
    with ProcessPoolExecutor(max_workers=14) as ex:
        results = list(ex.map(spec_case, [(s, rng.randrange(1 << 30)) for s in specs], chunksize=4))
        dres = list(ex.map(discovery_case, [(rng.randrange(1 << 30),) for _ in range(200 if big else 40)], chunksize=2))
    failures, disagreements = [], []
    pairs = []
    styles = {}
    for spec, res in zip(specs, results):
        for label, exp, act in res:
            styles[label] = styles.get(label, 0) + 1
            if exp is None:
                continue
            if isinstance(act, str):
                failures.append(dict(case=dict(kind="dsl", spec=spec, style=label),
                                     what="the %s definition is rejected (%s) although the config it denotes is accepted" % (label, act),
                                     signature=F16 if not name_safe(spec) else None))
                continue
            pairs.append((exp, act, spec, label))
    shard = 40
    cj = []
    for j in range(0, len(pairs), shard):
        text = "From XSM Require Import Model.Generic.\nEval vm_compute in bad_pairs %s.\n" % core.cl(
            "(%s, %s)" % (tomodel.to_coq(a), tomodel.to_coq(b)) for a, b, _, _ in pairs[j:j + shard])
        cj.append(("c19_eq_%03d" % (j // shard), text))
    outs = core.coq_eval_many(cj, par=14)
    certified = 0
    for (jn, _), j in zip(cj, range(0, len(pairs), shard)):
        rc, out, _ = outs[jn]
        body = re.sub(r"\s+", "", out[out.find("="):]) if rc == 0 else ""
        m = re.match(r"=\[([0-9;]*)\]", body)
        if rc != 0 or not m:
            disagreements.append(dict(component="tree-equality", case=None, impl=None, model="coqc failed: " + out[-400:]))
            continue
        bad = [int(x) for x in re.findall(r"\d+", m.group(1))]
        certified += len(pairs[j:j + shard]) - len(bad)
        for b in bad:
            exp, act, spec, label = pairs[j + b]
            diffs = tomodel.all_diffs(exp, act)
            d = diffs[0] if diffs else None
            failures.append(dict(case=dict(kind="dsl", spec=spec, style=label),
                                 what="the %s definition builds a machine that differs from create_machine(the config it denotes) in %d places: at %s: "
                                      "denoted %s, built %s" % (label, len(diffs), " / ".join(d[0]) if d else "?", d[1] if d else "?", d[2] if d else "?"),
                                 signature=F16 if not name_safe(spec) else None))
    n_disc = 0
    for out, (cfg, names_) in dres:
        n_disc += 1
        for code, kind, what in out:
            failures.append(dict(case=dict(kind="discovery", cfg=cfg, names=names_), what="%s (%s): %s" % (code, kind, what), signature=None))
    rep.coverage.update(evaluations=len(pairs) + n_disc, distinct_nontrivial=len(specs),
                        rule="abstract definitions (nesting, parallel, history, final, after, always, invoke, onDone, tags, meta, root "
                             "properties, transitions between states at any depth, internal transitions; unique state names and - every fourth - "
                             "names repeated at different depths) built through the functional, class-based and builder APIs and compared, as "
                             "labelled trees IN COQ, with create_machine() of the config the definition denotes (written independently in the "
                             "harness); second builds, builds after mutating the first result, and a second definition reusing the same State "
                             "objects; discovery: providers / modules implementing the required names in snake_case or as written, each name "
                             "removed in turn, composite guards nested three deep, built-ins, spawn_ directives",
                        samples=[dict(styles=styles)] + [dict(style=label, spec=spec) for _, _, spec, label in pairs[:2]],
                        traces_validated_against_impl=len(pairs),
                        programs=len(pairs), disagreements_checked=len(pairs) - certified,
                        components={"tree-equality (Coq)": dict(pairs=len(pairs), certified_equal=certified, by_style=styles),
                                    "discovery": dict(configs=n_disc)})
    core.decide(rep, ctx["proof"], disagreements, failures, None)
    rep.assumptions += ["the JSON denotation of a definition is written in the harness (denote): each Transition belongs to its source state "
                        "only and names its target State object (emitted as an absolute target)",
                        "harness/tomodel.py extracts the compared tree (trusted; validated against traces in C18)"]


def replay(payload):
    c = payload.get("case") or {}
    logging.disable(logging.CRITICAL)
    if c.get("kind") == "dsl":
        spec = c["spec"]
        for t in spec["transitions"]:
            t["source"] = tuple(t["source"])
            t["target"] = tuple(t["target"]) if t["target"] is not None else None
        for s in spec["states"]:
            pass
        bad = False
        for label, exp, act in spec_case((spec, 0)):
            if exp is None or isinstance(act, str):
                print(label, "->", act)
                bad = bad or isinstance(act, str)
                continue
            d = tomodel.all_diffs(exp, act)
            print(label, "differences:", len(d), d[:2])
            bad = bad or bool(d)
        return 1 if bad else 0
    if c.get("kind") == "discovery":
        print("re-run: harness.props.c19.discovery_case with the recorded seed is not stored; config:", c.get("cfg"))
        return 1
    print("no concrete case:", payload.get("broken"))
    return 1
