"""Shared pieces of the per-property checks: case families, token parsing,
the generic "K-macro + monitor" flow."""
from __future__ import annotations

import itertools
import random

from harness import am as AMm
from harness import core, impl, kmacro
from harness.am import AM, Trans


# --------------------------------------------------------------------------
# token lists -> structured snapshots (for the monitors)
# --------------------------------------------------------------------------

def parse_snapshot(tokens):
    """Inverse of impl.flat_state.  Returns dict or {'special': ...}."""
    vals = [t[1] for t in tokens]
    if not vals or vals[0] != "cfg":
        return dict(special=vals)
    i = 1
    out = dict(cfg=[], hist={}, ctx=[], queue=[], status=None, output=None, log=[])
    while vals[i] != "hist":
        out["cfg"].append(vals[i]); i += 1
    i += 1
    while vals[i] != "ctx":
        p = vals[i]; i += 2
        l = []
        while vals[i] != "]":
            l.append(vals[i]); i += 1
        i += 1
        out["hist"][p] = l
    i += 1
    while vals[i] != "queue":
        out["ctx"].append(vals[i]); i += 1
    i += 1
    while vals[i] != "status":
        out["queue"].append((vals[i], vals[i + 1])); i += 2
    out["status"] = vals[i + 1]; i += 2
    assert vals[i] == "output"
    out["output"] = None if vals[i + 1] == "none" else vals[i + 1]
    i += 2
    out["armed"] = []
    if vals[i] == "armed":
        i += 1
        while vals[i] != "log":
            out["armed"].append(vals[i]); i += 1
    assert vals[i] == "log"
    i += 1
    log = []
    n = len(vals)

    def read_list(j):
        assert vals[j] == "["
        j += 1
        l = []
        while vals[j] != "]":
            l.append(vals[j]); j += 1
        return l, j + 1
    while i < n:
        k = vals[i]
        if k == "act":
            log.append(("act", vals[i + 1], vals[i + 2], vals[i + 3])); i += 4
        elif k in ("fail", "started", "stopped"):
            log.append((k,)); i += 1
        elif k == "svc":
            log.append(("svc", vals[i + 1])); i += 2
        elif k in ("acterr", "sched", "cancel", "cut", "err", "can", "enter", "leave", "clock"):
            log.append((k, vals[i + 1])); i += 2
        elif k == "trans":
            l, j = read_list(i + 2)
            log.append(("trans", vals[i + 1], l)); i = j
        elif k == "notify":
            l, j = read_list(i + 1)
            log.append(("notify", l)); i = j
        elif k == "begin":
            log.append(("begin", vals[i + 1], vals[i + 2])); i += 3
        elif k == "emit":
            log.append(("emit", vals[i + 1], vals[i + 2])); i += 3
        elif k == "done":
            log.append(("done", None if vals[i + 1] == "none" else vals[i + 1])); i += 2
        else:
            raise ValueError("bad token %r at %d" % (k, i))
    out["log"] = log
    return out


def split_by_event(log):
    """[(begin-record or None, [records...]), ...] - one bracket per processed event."""
    out = [(None, [])]
    for o in log:
        if o[0] == "begin":
            out.append((o, []))
        else:
            out[-1][1].append(o)
    return out


# --------------------------------------------------------------------------
# families
# --------------------------------------------------------------------------

def random_family(rng, n, features=None, max_nodes=9, runs=2, max_len=6, engines=("sync", "async")):
    cases = []
    for i in range(n):
        a, events = AMm.random_machine(rng, max_nodes=max_nodes, features=features)
        rr = []
        for _ in range(runs):
            evs = [(rng.choice(events), "plain", k + 1) for k in range(rng.randint(1, max_len))]
            rr.append(({0: rng.randint(0, 2), 1: rng.randint(0, 2), 2: rng.randint(0, 1)}, evs))
        cases.append((a, engines[i % len(engines)], rr, None))
    return cases


def small_tree_family(rng, max_nodes, per_machine_runs=3, walk_len=5, sample=None, engines=("sync", "async"),
                      leaf_kinds=AMm.LEAF_KINDS):
    """Every tree with <= max_nodes nodes (all kinds, all initial choices) carrying one marked transition per
    ordered (source, target) pair; runs are random walks over the pair events."""
    cases = []
    trees = list(AMm.enumerate_trees(max_nodes, leaf_kinds=leaf_kinds))
    if sample is not None and len(trees) > sample:
        trees = rng.sample(trees, sample)
    for i, nodes in enumerate(trees):
        AMm.add_marks(nodes)
        a = AM(nodes, max_iter=8)
        AMm.add_all_pairs(a)
        evnames = [k for n in a.nodes for k, _ in n.on]
        rr = []
        for _ in range(per_machine_runs):
            rr.append(({}, [(rng.choice(evnames), "plain", k + 1) for k in range(walk_len)]))
        cases.append((a, engines[i % len(engines)], rr, None))
    return cases, len(trees)


def directed_pair_family(rng, max_nodes, engines=("sync", "async"), sample=None, leaf_kinds=AMm.LEAF_KINDS):
    """For every tree and every ordered pair (s, t): a run that first drives the machine so that s is active
    (by targeting s from the root), visits / leaves as needed, then fires t<s>_<t>."""
    cases = []
    trees = list(AMm.enumerate_trees(max_nodes, leaf_kinds=leaf_kinds))
    if sample is not None and len(trees) > sample:
        trees = rng.sample(trees, sample)
    for i, nodes in enumerate(trees):
        AMm.add_marks(nodes)
        a = AM(nodes, max_iter=8)
        AMm.add_all_pairs(a)
        n = len(a.nodes)
        rr = []
        real = [x.idx for x in a.nodes if not x.kind.startswith("hist")]
        for s in real:
            for t in range(n):
                pre = [] if s == 0 else [("t0_%d" % s, "plain", 1)]
                rr.append(({}, pre + [("t%d_%d" % (s, t), "plain", 2)]))
                if s == t:
                    rr.append(({}, pre + [("r%d_%d" % (s, t), "plain", 2)]))
        cases.append((a, engines[i % len(engines)], rr, None))
    return cases, len(trees)


def history_inside_family(rng, n, engines=("sync", "async")):
    """A compound or parallel state P with a shallow or deep history child (sometimes with a default target) whose
    sub-states hold two leaves each; every leaf can move to its sibling (GO<i>) and can target P's history child from
    INSIDE P (BACK<i>); the root can leave P (OUT), re-enter it by default (IN) or through its history (HIST).
    Entry and exit markers on every state.  (The shape of former findings F34 / F21.)"""
    from harness.am import Node
    cases = []
    for i in range(n):
        tid = itertools.count(1)
        mark = itertools.count(1)
        nodes = [Node(0, "m", None, "compound")]

        def add(parent, key, kind):
            x = Node(len(nodes), key, parent, kind)
            nodes.append(x)
            nodes[parent].children.append(x.idx)
            if not kind.startswith("hist"):
                x.entry = [("mark", next(mark))]
                x.exit = [("mark", next(mark))]
            return x.idx
        pk = ("parallel", "compound")[i % 2]
        hk = ("hist_deep", "hist_shallow")[(i // 2) % 2]
        top_is_p = (i // 4) % 3 == 0          # P is the machine root itself
        if top_is_p:
            nodes[0].kind = pk
            p = 0
            out_ = None
        else:
            p = add(0, "p", pk)
            out_ = add(0, "out", "atomic")
            nodes[0].initial = p
        h = add(p, "h", hk)
        subs = []
        for k in rng.sample(["r1", "r2", "ar", "zr"], rng.choice([2, 3])):
            r = add(p, k, "compound")
            x = add(r, "x", "atomic")
            y = add(r, rng.choice(["y", "ay"]), "atomic")
            nodes[r].initial = x
            subs.append((r, x, y))
        if pk == "compound":
            nodes[p].initial = subs[0][0]
        if rng.random() < 0.3:
            nodes[h].hist_default = rng.choice([y for _, _, y in subs])
        am = AM(nodes, max_iter=10)
        evs = []
        for j, (r, x, y) in enumerate(subs):
            nodes[x].on.append(("GO%d" % j, [Trans(next(tid), x, "GO%d" % j, y)]))
            nodes[y].on.append(("GO%d" % j, [Trans(next(tid), y, "GO%d" % j, x)]))
            nodes[x].on.append(("BACK%d" % j, [Trans(next(tid), x, "BACK%d" % j, h)]))
            nodes[y].on.append(("BACK%d" % j, [Trans(next(tid), y, "BACK%d" % j, h)]))
            evs += ["GO%d" % j, "BACK%d" % j]
            if pk == "compound" and j + 1 < len(subs):
                nodes[r].on.append(("NEXT%d" % j, [Trans(next(tid), r, "NEXT%d" % j, subs[j + 1][0])]))
                evs.append("NEXT%d" % j)
        if out_ is not None:
            nodes[0].on.append(("OUT", [Trans(next(tid), 0, "OUT", out_)]))
            nodes[0].on.append(("IN", [Trans(next(tid), 0, "IN", p)]))
            nodes[0].on.append(("HIST", [Trans(next(tid), 0, "HIST", h)]))
            evs += ["OUT", "IN", "HIST"]
        runs = []
        for _ in range(3):
            seq = [rng.choice(evs) for _ in range(rng.randint(2, 6))]
            runs.append(({}, [(e, "plain", j + 1) for j, e in enumerate(seq)]))
        cases.append((am, engines[i % len(engines)], runs, None))
    return cases


def history_misuse_family(engines=("sync", "async")):
    """Machines outside the side conditions of the C01 theorems (recorded findings F35-F37): `initial` naming a history
    pseudo-state (compound parent; parallel parent whose never-recorded history is targeted), a history default target
    that is itself a history pseudo-state, a history default target outside the history state's parent."""
    from harness.am import Node
    cases = []

    def build(spec):
        tid = itertools.count(1)
        nodes = [Node(0, "m", None, "compound")]
        idx = {"m": 0}

        def add(parent, key, kind):
            x = Node(len(nodes), key, idx[parent], kind)
            nodes.append(x)
            nodes[idx[parent]].children.append(x.idx)
            idx[parent + "." + key] = x.idx
            return x.idx
        for parent, key, kind in spec["nodes"]:
            add(parent, key, kind)
        for k, v in spec.get("initial", {}).items():
            nodes[idx[k]].initial = idx[v]
        for k, v in spec.get("default", {}).items():
            nodes[idx[k]].hist_default = idx[v]
        for src, ev, tgt in spec.get("on", []):
            nodes[idx[src]].on.append((ev, [Trans(next(tid), idx[src], ev, idx[tgt])]))
        return AM(nodes, max_iter=8)
    specs = []
    for hk in ("hist_shallow", "hist_deep"):
        # F35: initial names a history pseudo-state (compound parent)
        specs.append((dict(nodes=[("m", "p", "compound"), ("m.p", "h", hk), ("m.p", "x", "atomic"), ("m.p", "y", "atomic")],
                           initial={"m": "m.p", "m.p": "m.p.h"}, on=[("m.p.x", "GO", "m.p.y")]), [[], ["GO"]]))
        # F35: a parallel parent declaring initial = its history child, never-recorded history targeted from outside
        specs.append((dict(nodes=[("m", "a", "atomic"), ("m", "p", "parallel"), ("m.p", "h", hk), ("m.p", "r", "compound"),
                                  ("m.p.r", "x", "atomic"), ("m.p.r", "y", "atomic")],
                           initial={"m": "m.a", "m.p": "m.p.h", "m.p.r": "m.p.r.x"}, on=[("m.a", "GO", "m.p.h")]), [["GO"]]))
        # F36: the default target of a history pseudo-state is a history pseudo-state
        specs.append((dict(nodes=[("m", "a", "atomic"), ("m", "p", "compound"), ("m.p", "h", hk), ("m.p", "x", "compound"),
                                  ("m.p.x", "h2", "hist_shallow"), ("m.p.x", "u", "atomic"), ("m.p.x", "v", "atomic"), ("m.p", "y", "atomic")],
                           initial={"m": "m.a", "m.p": "m.p.x", "m.p.x": "m.p.x.u"}, default={"m.p.h": "m.p.x.h2"},
                           on=[("m.a", "GO", "m.p.h")]), [["GO"]]))
        # F37: the default target lies outside the history state's parent; targeted from inside the parent
        specs.append((dict(nodes=[("m", "p", "compound"), ("m.p", "h", hk), ("m.p", "x", "atomic"), ("m.p", "y", "atomic"), ("m", "q", "atomic")],
                           initial={"m": "m.p", "m.p": "m.p.x"}, default={"m.p.h": "m.q"}, on=[("m.p.x", "GO", "m.p.h")]), [["GO"]]))
    for i, (spec, seqs) in enumerate(specs):
        am = build(spec)
        runs = [({}, [(e, "plain", j + 1) for j, e in enumerate(seq)]) for seq in seqs]
        for eng in engines:
            cases.append((am, eng, runs, None))
    return cases


# --------------------------------------------------------------------------
# generic flow
# --------------------------------------------------------------------------

def nested_parallel_family(rng, n, engines=("sync", "async")):
    """A parallel state one of whose regions holds a nested parallel state with 2-4 sub-regions (equal-depth leaves
    with exit and entry markers), left by transitions whose domain is the OUTER parallel state: declared on it and
    targeting a descendant inside a region, across regions, and out of it altogether."""
    from harness.am import Node
    cases = []
    for i in range(n):
        tid = itertools.count(1)
        mark = itertools.count(1)
        nodes = [Node(0, "m", None, "compound")]

        def add(parent, key, kind):
            x = Node(len(nodes), key, parent, kind)
            nodes.append(x)
            nodes[parent].children.append(x.idx)
            x.entry = [("mark", next(mark))]
            x.exit = [("mark", next(mark))]
            return x.idx
        p = add(0, "p", "parallel")
        out_ = add(0, "out", "atomic")
        nodes[0].initial = p
        r1 = add(p, rng.choice(["r1", "zr"]), "compound")
        r2 = add(p, rng.choice(["r2", "ar"]), "compound")
        inner = add(r1, rng.choice(["n", "zn"]), "parallel")
        alt = add(r1, "alt", "atomic")
        nodes[r1].initial = inner
        subs = []
        keys = rng.sample(["s1", "s2", "zs", "as", "s10", "b"], rng.choice([2, 3, 4]))
        for k in keys:
            sr = add(inner, k, "compound")
            leaf = add(sr, rng.choice(["x", "ax", "zx"]), "atomic")
            nodes[sr].initial = leaf
            subs.append((sr, leaf))
        y = add(r2, "y", "atomic")
        y2 = add(r2, "y2", "atomic")
        nodes[r2].initial = y
        am = AM(nodes, max_iter=10)
        nodes[p].on.append(("T", [Trans(next(tid), p, "T", alt)]))                 # declared on p, into region r1
        nodes[p].on.append(("U", [Trans(next(tid), p, "U", y2)]))                  # declared on p, into region r2
        nodes[subs[0][1]].on.append(("X", [Trans(next(tid), subs[0][1], "X", y2)]))  # across regions
        nodes[y].on.append(("W", [Trans(next(tid), y, "W", alt)]))                 # across regions, the other way
        nodes[0].on.append(("OUT", [Trans(next(tid), 0, "OUT", out_)]))
        nodes[0].on.append(("IN", [Trans(next(tid), 0, "IN", p)]))
        nodes[alt].on.append(("BACK", [Trans(next(tid), alt, "BACK", inner)]))
        evs = ["T", "U", "X", "W", "OUT", "IN", "BACK"]
        runs = []
        for _ in range(3):
            seq = [rng.choice(evs) for _ in range(rng.randint(2, 5))]
            runs.append(({}, [(e, "plain", j + 1) for j, e in enumerate(seq)]))
        cases.append((am, engines[i % len(engines)], runs, None))
    return cases


def case_payload(am, engine, cx, events, opts=None):
    import base64, pickle
    return dict(config=_jsonable(am.to_config(**{k: v for k, v in (opts or {}).items() if k not in ('probe_can', 'hook_faults')})), engine=engine, ctx=cx, events=[list(e) for e in events],
                opts=opts, am_b64=base64.b64encode(pickle.dumps(am)).decode())


def _jsonable(x):
    if isinstance(x, dict):
        return {str(k): _jsonable(v) for k, v in x.items()}
    if isinstance(x, (list, tuple)):
        return [_jsonable(v) for v in x]
    if isinstance(x, AMm.BadParams):
        return "<callable raising (bad params %d)>" % x.k
    return x


def run_macro_property(rep, ctx, name, cases, monitor, rule, extra_search=None, known_sig=None):
    """cases: list of (am, engine, runs, opts).  monitor(am, engine, cx, events, snapshots) -> list of
    (what, signature) failures.  Returns (disagreements, monitor_failures, stats)."""
    dis, stats, results, cases = kmacro.check(cases, name)
    failures = []
    evaluations = 0
    nontrivial = set()
    samples = []
    for (am, engine, runs, opts), res in zip(cases, results):
        for (cx, events), snaps in zip(runs, res):
            evaluations += 1
            parsed = [parse_snapshot(s) for s in snaps]
            fired = sum(1 for p in parsed[-1:] for o in p.get("log", []) if o[0] == "trans" and o[1] != 0)
            if fired:
                nontrivial.add(core.case_hash([am.to_coq(), engine, cx, events]))
            if len(samples) < 3 and fired:
                samples.append(dict(config=_jsonable(am.to_config(**{k: v for k, v in (opts or {}).items() if k not in ('probe_can', 'hook_faults')})), engine=engine, ctx=cx,
                                    events=[list(e) for e in events],
                                    final=" ".join(str(t[1]) for t in snaps[-1])[:600]))
            try:
                verdicts = monitor(am, engine, cx, events, parsed)
            except Exception as exc:
                import traceback
                traceback.print_exc()
                for s_ in snaps:
                    print("SNAP", " ".join(str(t[1]) for t in s_)[:3000])
                raise
            for what, sig in verdicts:
                failures.append(dict(case=case_payload(am, engine, cx, events, opts), what=what, signature=sig))
    for d in dis:
        d.pop("am", None)
    # runs on which the implementation hit the watchdog: the monitor sees them as a single 'special' snapshot
    for am, engine, cx, events, opts, snaps in stats.get("timed_out_runs", []):
        evaluations += 1
        for what, sig in monitor(am, engine, cx, events, [parse_snapshot(s_) for s_ in snaps]):
            failures.append(dict(case=case_payload(am, engine, cx, events, opts), what=what, signature=sig))
    stats.update(evaluations=evaluations, nontrivial=len(nontrivial))
    rep.coverage.setdefault("components", {})[name] = dict(machines=stats["machines"], runs=stats["runs"],
                                                           skipped_large=stats.get("skipped_large", 0),
                                                           impl_timeouts=stats.get("impl_timeouts", 0),
                                                           model_out_of_fuel=stats.get("model_out_of_fuel", 0),
                                                           disagreements=len(dis))
    rep.coverage["evaluations"] = rep.coverage.get("evaluations", 0) + evaluations
    rep.coverage["distinct_nontrivial"] = rep.coverage.get("distinct_nontrivial", 0) + len(nontrivial)
    rep.coverage["traces_validated_against_impl"] = rep.coverage.get("traces_validated_against_impl", 0) + stats["runs"]
    rep.coverage.setdefault("samples", [])
    rep.coverage["samples"] += samples[: max(0, 3 - len(rep.coverage["samples"]))]
    rep.coverage["rule"] = (rep.coverage.get("rule", "") + " | " + rule).strip(" |")
    return dis, failures, stats


def replay_macro(payload, monitor=None):
    """Re-run a replay file's case on the current tree and on the model; print both, and the monitor's verdict."""
    import base64, pickle
    case = payload.get("case") or (payload.get("first_disagreement") or {}).get("case")
    if not case or "am_b64" not in case:
        print("replay: no concrete case in this file; broken:", payload.get("broken"))
        return 1
    am = pickle.loads(base64.b64decode(case["am_b64"]))
    def _ev(e):
        if e[0] == "burst":
            return ("burst", [_ev(x) for x in e[1]])
        if e[0] == "at":
            return ("at", e[1], [_ev(x) for x in e[2]])
        if e[0] in ("start", "stop"):
            return (e[0],)
        return (e[0], e[1] if isinstance(e[1], str) else tuple(e[1]), e[2])
    events = [_ev(e) for e in case["events"]]
    cx = {int(k): v for k, v in (case.get("ctx") or {}).items()}
    fn = impl.run_sync if case["engine"] == "sync" else impl.run_async
    o = dict(case.get("opts") or {})
    probe = bool(o.pop("probe_can", False))
    hf = bool(o.pop("hook_faults", False))
    snaps = fn(am, events, cfg_opts=o, seed_ctx=kmacro.ctx_seed(cx), probe_can=probe, hook_faults=hf)
    print("engine:", case["engine"], "ctx:", cx, "events:", events)
    for i, s_ in enumerate(snaps):
        print("IMPL  [%d] %s" % (i, " ".join(str(t[1]) for t in s_)))
    out = kmacro.model_trace(am, case["engine"], cx, events, probe=probe)
    import re
    out = re.sub(r"\s+", " ", out)
    for k in ("TS ", "TN ", "TZ ", "%Z", '"', ";"):
        out = out.replace(k, "")
    print("MODEL", out[:6000])
    bad = []
    if monitor is not None:
        bad = monitor(am, case["engine"], cx, events, [parse_snapshot(s_) for s_ in snaps])
        for what, sig in bad:
            print("MONITOR:", what, sig)
    return 1 if bad else 0
