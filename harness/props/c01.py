"""C01 - the active configuration is always a legal statechart configuration."""
from __future__ import annotations

import random

from harness import core
from harness.props import common

LEVEL = "proof"


def classify(am, tid, hist_before):
    """Narrow signature of an illegal configuration produced by transition tid (for known findings)."""
    ts = {t.tid: t for t in am.all_trans()}
    t = ts.get(tid)
    if t is None:
        return None
    if t.target == 0:
        return dict(kind="illegal-config", cause="transition-targets-machine-root")
    if isinstance(t.target, int) and am.nodes[t.target].kind.startswith("hist"):
        p = am.nodes[t.target].parent
        if am.nodes[p].kind == "parallel" and p not in hist_before and am.nodes[t.target].hist_default is None:
            return dict(kind="illegal-config", cause="history-under-parallel-unvisited")
    return None


def monitor(am, engine, cx, events, snaps):
    out = []
    if any(o[0] == "err" for o in snaps[0].get("log", [])):
        return out   # start() itself raised: the library did not agree to start this machine
    prev_hist = {}
    for k, sn in enumerate(snaps):
        if "special" in sn:
            continue
        # observation points: every on_transition / subscriber record, and the snapshot itself
        last_tid = None
        seen = 0
        for o in sn["log"]:
            if o[0] == "trans":
                last_tid = o[1]
                cfg = o[2]
            elif o[0] == "notify":
                cfg = o[1]
            else:
                continue
            seen += 1
        # only look at records of this step (log is cumulative): re-scan from previous snapshot's length
        start = len(snaps[k - 1]["log"]) if k > 0 and "special" not in snaps[k - 1] else 0
        pending = None
        for idx, o in enumerate(sn["log"][start:]):
            if o[0] == "notify" and not am.legal(o[1]):
                # the transition that caused it is the next 'trans' record (async: previous)
                tid = next((x[1] for x in sn["log"][start + idx:] if x[0] == "trans"), None)
                out.append(("illegal configuration %s seen by a subscriber" % o[1], classify(am, tid, prev_hist)))
            if o[0] == "trans" and not am.legal(o[2]) and sn["status"] != 0:
                out.append(("illegal configuration %s at on_transition(tid=%d)" % (o[2], o[1]),
                            classify(am, o[1], prev_hist)))
        if sn["status"] in (1, 2) and not am.legal(sn["cfg"]):
            tid = next((x[1] for x in reversed(sn["log"]) if x[0] == "trans" and x[1] != 0), None)
            out.append(("illegal configuration %s when %s returned" % (sn["cfg"], "start()" if k == 0 else "send()"),
                        classify(am, tid, prev_hist)))
        prev_hist = sn["hist"]
    # one failure per run is enough
    return out[:1]


def families(tier, rng):
    fams = []
    if tier == "thorough":
        c, n = common.directed_pair_family(rng, 4)
        fams.append(("pairs<=4", c, "every tree with <=4 nodes x every (source,target) pair, both engines alternating (%d trees)" % n))
        c, n = common.directed_pair_family(rng, 5, sample=700)
        fams.append(("pairs5", c, "700 sampled trees with 5 nodes x every pair"))
        fams.append(("random", common.random_family(rng, 1500, max_nodes=12), "1500 seeded random machines (<=12 nodes), 2 runs each"))
        fams.append(("faults", common.random_family(rng, 1000, max_nodes=10, features=dict(faults=True, badtarget=True)),
                     "1000 random machines with failing / missing actions, missing guards, unresolvable targets"))
    else:
        c, n = common.directed_pair_family(rng, 3)
        fams.append(("pairs<=3", c, "every tree with <=3 nodes x every (source,target) pair (%d trees)" % n))
        c, n = common.directed_pair_family(rng, 4, sample=140)
        fams.append(("pairs4", c, "140 sampled trees with 4 nodes x every pair"))
        fams.append(("random", common.random_family(rng, 260, max_nodes=10), "260 seeded random machines (<=10 nodes), 2 runs each"))
        fams.append(("faults", common.random_family(rng, 200, max_nodes=9, features=dict(faults=True, badtarget=True)),
                     "200 random machines with failing / missing actions, missing guards, unresolvable targets (aborted transitions, rollback)"))
    return fams


def run(rep, ctx):
    rng = random.Random(ctx["seed"] * 7919 + 1)
    dis_all, fail_all = [], []
    for name, cases, rule in families(ctx["tier"], rng):
        dis, fails, stats = common.run_macro_property(rep, ctx, "c01_" + name.replace("<=", "le"), cases, monitor, rule)
        dis_all += dis
        fail_all += fails
    rep.coverage["exhaustive"] = True

    def search(extra):
        more = common.random_family(random.Random(ctx["seed"] + 99), 600, max_nodes=10)
        _, fails, _ = common.run_macro_property(rep, ctx, "c01_search", more, monitor, "search: 600 more random machines")
        return fails
    core.decide(rep, ctx["proof"], dis_all, fail_all, search)
    rep.assumptions += ["observation points: on_transition hook, subscriber callback, return of start()/send(), async quiescence",
                        "pure API snapshots are covered by C05's check"]


def replay(payload):
    return common.replay_macro(payload, monitor)
