"""C01 - the active configuration is always a legal statechart configuration."""
from __future__ import annotations

import random

from harness import core
from harness.props import common

LEVEL = "proof"


def classify(am, tid, hist_before, cfg=None):
    """Narrow signature of an illegal configuration produced by transition tid (for known findings)."""
    # an ACTIVE history pseudo-state that got there as somebody's `initial` child (F35) or as the default target of
    # another history pseudo-state (F36)
    for x in (cfg or []):
        n = am.nodes[x]
        if n.kind.startswith("hist"):
            if n.parent is not None and am.nodes[n.parent].initial == x:
                return dict(kind="illegal-config", cause="initial-names-history-state")
            if any(g.kind.startswith("hist") and g.hist_default == x for g in am.nodes):
                return dict(kind="illegal-config", cause="history-default-is-history-state")
    ts = {t.tid: t for t in am.all_trans()}
    t = ts.get(tid)
    if t is None:
        return None
    if isinstance(t.target, int) and am.nodes[t.target].kind.startswith("hist"):
        g = am.nodes[t.target]
        if g.hist_default is not None and g.parent not in hist_before and not (
                g.hist_default != g.parent and am.is_desc(g.hist_default, g.parent)):
            return dict(kind="illegal-config", cause="history-default-outside-parent")
    if t.target == 0:
        return dict(kind="illegal-config", cause="transition-targets-machine-root")
    if isinstance(t.target, int) and am.nodes[t.target].kind.startswith("hist"):
        p = am.nodes[t.target].parent
        if am.nodes[p].kind == "parallel" and p not in hist_before and am.nodes[t.target].hist_default is None:
            return dict(kind="illegal-config", cause="history-under-parallel-unvisited")
    return None


def monitor(am, engine, cx, events, snaps):
    out = []
    if any(o[0] == "err" for o in snaps[0].get("log", [])):
        return out   # start() itself raised: the library did not agree to start this machine
    prev_hist = {}
    for k, sn in enumerate(snaps):
        if "special" in sn:
            continue
        # observation points: every on_transition / subscriber record, and the snapshot itself
        last_tid = None
        seen = 0
        for o in sn["log"]:
            if o[0] == "trans":
                last_tid = o[1]
                cfg = o[2]
            elif o[0] == "notify":
                cfg = o[1]
            else:
                continue
            seen += 1
        # only look at records of this step (log is cumulative): re-scan from previous snapshot's length
        start = len(snaps[k - 1]["log"]) if k > 0 and "special" not in snaps[k - 1] else 0
        pending = None
        for idx, o in enumerate(sn["log"][start:]):
            if o[0] == "notify" and not am.legal(o[1]):
                # the transition that caused it is the next 'trans' record (async: previous)
                tid = next((x[1] for x in sn["log"][start + idx:] if x[0] == "trans"), None)
                out.append(("illegal configuration %s seen by a subscriber" % o[1], classify(am, tid, prev_hist, o[1])))
            if o[0] == "trans" and not am.legal(o[2]) and sn["status"] != 0:
                out.append(("illegal configuration %s at on_transition(tid=%d)" % (o[2], o[1]),
                            classify(am, o[1], prev_hist, o[2])))
        if sn["status"] in (1, 2) and not am.legal(sn["cfg"]):
            tid = next((x[1] for x in reversed(sn["log"]) if x[0] == "trans" and x[1] != 0), None)
            out.append(("illegal configuration %s when %s returned" % (sn["cfg"], "start()" if k == 0 else "send()"),
                        classify(am, tid, prev_hist, sn["cfg"])))
        prev_hist = sn["hist"]
    # one failure per run is enough
    return out[:1]


def families(tier, rng):
    fams = []
    if tier == "thorough":
        c, n = common.directed_pair_family(rng, 4)
        fams.append(("pairs<=4", c, "every tree with <=4 nodes x every (source,target) pair, both engines alternating (%d trees)" % n))
        c, n = common.directed_pair_family(rng, 5, sample=700)
        fams.append(("pairs5", c, "700 sampled trees with 5 nodes x every pair"))
        fams.append(("random", common.random_family(rng, 1500, max_nodes=12), "1500 seeded random machines (<=12 nodes), 2 runs each"))
        fams.append(("faults", common.random_family(rng, 1000, max_nodes=10, features=dict(faults=True, badtarget=True)),
                     "1000 random machines with failing / missing actions, missing guards, unresolvable targets"))
        fams.append(("hist_inside", common.history_inside_family(rng, 360),
                     "360 machines whose compound / parallel state (also as machine root) has a shallow / deep history child targeted from "
                     "INSIDE that state and from outside, after the regions moved (shape of former findings F34 / F21)"))
    else:
        c, n = common.directed_pair_family(rng, 3)
        fams.append(("pairs<=3", c, "every tree with <=3 nodes x every (source,target) pair (%d trees)" % n))
        c, n = common.directed_pair_family(rng, 4, sample=140)
        fams.append(("pairs4", c, "140 sampled trees with 4 nodes x every pair"))
        fams.append(("random", common.random_family(rng, 260, max_nodes=10), "260 seeded random machines (<=10 nodes), 2 runs each"))
        fams.append(("faults", common.random_family(rng, 200, max_nodes=9, features=dict(faults=True, badtarget=True)),
                     "200 random machines with failing / missing actions, missing guards, unresolvable targets (aborted transitions, rollback)"))
        fams.append(("hist_inside", common.history_inside_family(rng, 48),
                     "48 machines whose compound / parallel state (also as machine root) has a shallow / deep history child targeted from "
                     "INSIDE that state and from outside, after the regions moved (shape of former findings F34 / F21)"))
    fams.append(("hist_misuse", common.history_misuse_family(),
                 "machines outside the side conditions of the C01 theorems: `initial` naming a history pseudo-state, a history default "
                 "target that is a history pseudo-state or lies outside the parent (recorded findings F35-F37)"))
    return fams


def ancestry_side_conditions(machines):
    """Tie T for _is_descendant (Proofs/IdP.v): the bridge theorem needs well-formed machines with distinct dotted-path
    ids; evaluate that, in Coq, for the machines handed to the correspondence.  -> (number checked, disagreements)"""
    import re
    jobs = []
    shard = 60
    for j in range(0, len(machines), shard):
        text = "From XSM Require Import Model.Cases Proofs.IdP.\nOpen Scope string_scope.\n"
        idx = list(range(j, min(j + shard, len(machines))))
        for i in idx:
            text += "Definition m%d : machine := %s.\n" % (i, machines[i].to_coq())
        text += "Eval vm_compute in %s.\n" % core.cl("(%d, ancestry_side_ok m%d)" % (i, i) for i in idx)
        jobs.append(("c01_sideok_%03d" % (j // shard), text))
    outs = core.coq_eval_many(jobs, par=14)
    dis, n = [], 0
    for jn, _ in jobs:
        rc, out, _ = outs[jn]
        if rc != 0:
            dis.append(dict(component="T-ancestry (side condition)", case=None, impl=None, model="coqc failed: " + out[-500:]))
            continue
        body = re.sub(r"\s+", "", out[out.find("="):])
        for si, b in re.findall(r"\((\d+),(true|false)\)", body):
            n += 1
            if b != "true":
                dis.append(dict(component="T-ancestry (side condition)", case=dict(machine=machines[int(si)].to_config()), impl=None,
                                model="ancestry_side_ok = false: ids are not distinct dotted paths, the bridge theorem does not apply"))
    return n, dis


def run(rep, ctx):
    rng = random.Random(ctx["seed"] * 7919 + 1)
    dis_all, fail_all = [], []
    seen = []
    for name, cases, rule in families(ctx["tier"], rng):
        dis, fails, stats = common.run_macro_property(rep, ctx, "c01_" + name.replace("<=", "le"), cases, monitor, rule)
        dis_all += dis
        fail_all += fails
        seen += [c[0] for c in cases]
    n_side, d_side = ancestry_side_conditions(seen[:: max(1, len(seen) // 600)])
    dis_all += d_side
    rep.coverage.setdefault("components", {})["T-ancestry"] = dict(
        machines_checked=n_side, side_condition_failures=len(d_side), source_status=ctx["build"]["gen"].get("GenTree") or "ok",
        note="Gen/GenTree.v is re-translated from base_interpreter._is_descendant on every run; Proofs/IdP.v proves it equal to the "
             "model's tree test for machines satisfying ancestry_side_ok, which is evaluated in Coq for these machines")
    rep.coverage["exhaustive"] = True

    def search(extra):
        more = common.random_family(random.Random(ctx["seed"] + 99), 600, max_nodes=10)
        _, fails, _ = common.run_macro_property(rep, ctx, "c01_search", more, monitor, "search: 600 more random machines")
        return fails
    core.decide(rep, ctx["proof"], dis_all, fail_all, search)
    rep.assumptions += ["observation points: on_transition hook, subscriber callback, return of start()/send(), async quiescence",
                        "pure API snapshots are covered by C05's check"]


def replay(payload):
    return common.replay_macro(payload, monitor)
