"""C13 - every macrostep terminates and never starves the host."""
from __future__ import annotations

import itertools
import random

from harness import core
from harness.am import AM, Node, Trans
from harness.props import common, c04

LEVEL = "proof"


def has_done_cycle(am):
    return any(n.ondone is not None for n in am.nodes)


def monitor(am, engine, cx, events, snaps):
    out = []
    specials = [s for s in snaps if "special" in s]
    if specials:
        # the watchdog fired: start()/send() did not return or the async loop never drained
        sig = None
        # fan-out needs at least two raise actions in the machine (one macrostep queueing more than one event)
        raises = sum(1 for n in am.nodes for a in n.entry + n.exit if a[0] == "raise") + \
            sum(1 for t in am.all_trans() for a in t.actions if a[0] == "raise")
        # crafted loop machines declare their fan-out; random ones may multiply one raise through an always loop
        fanout = getattr(am, "fanout", None)
        if engine == "async" and ((fanout is None and raises >= 1) or (fanout is not None and fanout >= 2)):
            sig = dict(kind="hang", cause="async-raise-fanout-unbounded")
        out.append(("%s engine: a macrostep did not terminate within the watchdog (%s)" % (engine, specials[0]["special"]), sig))
        return out
    final = snaps[-1]
    # after a cut the configuration is legal and the interpreter still answers
    if any(o[0] == "cut" for o in final["log"]) and final["status"] == 1:
        if not am.legal(final["cfg"]):
            out.append(("configuration %s after a bound was hit is not legal" % final["cfg"], None))
    # chains shorter than the bound run to their natural end (family-specific expectation)
    exp = getattr(am, "expect_final", None)
    if exp is not None and final["status"] in (1, 2):
        if sorted(final["cfg"]) != sorted(exp) and not any(o[0] in ("cut", "err") for o in final["log"]):
            out.append(("chain shorter than maxIterations did not run to its end: configuration %s, expected %s" % (final["cfg"], exp), None))
        if any(o[0] == "cut" for o in final["log"]) and getattr(am, "expect_no_cut", False):
            out.append(("a chain of length %s < maxIterations=%d was cut" % (getattr(am, "chain_len", "?"), am.max_iter), None))
    # the probe event sent last must still be answered when the machine is running
    probe = getattr(am, "probe_mark", None)
    if probe is not None and final["status"] == 1:
        last_new = final["log"][len(snaps[-2]["log"]):] if len(snaps) > 1 else []
        # "answers" = the event is dequeued and processed to quiescence (an enabled eventless transition left over by
        # the cut is a deeper candidate for any external event, so the root's own handler need not be the one that runs)
        if not any(o[0] == "begin" and o[1] == "PING" for o in last_new):
            out.append(("the interpreter did not process the next event after a self-feeding chain", None))
    # the bound never discards events sent from outside: delegated to C04's accounting
    for what, sig in c04.monitor(am, engine, cx, events, snaps):
        if sig is not None:
            out.append((what, sig))
    return out[:1]


def loop_machine(rng, kind, k, mi):
    tid = itertools.count(1)
    nodes = [Node(0, "m", None, "compound")]

    def add(parent, key, kd):
        n = Node(len(nodes), key, parent, kd)
        nodes.append(n)
        nodes[parent].children.append(n.idx)
        return n.idx
    am = None
    idle = add(0, "idle", "atomic")
    nodes[0].initial = idle
    PROBE = 999
    nodes[0].on.append(("PING", [Trans(next(tid), 0, "PING", None, actions=[("mark", PROBE)])]))
    if kind == "always_chain":
        # GO: idle -> c0 -always-> c1 ... -always-> c(k)   (k eventless hops)
        cs = [add(0, "c%d" % i, "atomic") for i in range(k + 1)]
        nodes[idle].on.append(("GO", [Trans(next(tid), idle, "GO", cs[0])]))
        for i in range(k):
            nodes[cs[i]].on.append(("", [Trans(next(tid), cs[i], "", cs[i + 1], actions=[("mark", 10 + i)])]))
        am = AM(nodes, max_iter=mi)
        am.expect_final = [0, cs[-1]] if k < mi else None
        am.expect_no_cut = k < mi
    elif kind == "always_cycle":
        cs = [add(0, "c%d" % i, "atomic") for i in range(k)]
        nodes[idle].on.append(("GO", [Trans(next(tid), idle, "GO", cs[0])]))
        for i in range(k):
            nodes[cs[i]].on.append(("", [Trans(next(tid), cs[i], "", cs[(i + 1) % k], actions=[("mark", 10 + i)])]))
        am = AM(nodes, max_iter=mi)
    elif kind == "raise_chain":
        # GO raises E0; Ei raises E(i+1) ... for k hops
        acts = lambda i: [("mark", 10 + i)] + ([("raise", "E%d" % (i + 1), 1)] if i + 1 < k else [])
        nodes[idle].on.append(("GO", [Trans(next(tid), idle, "GO", None, actions=[("raise", "E0", 1)])]))
        for i in range(k):
            nodes[idle].on.append(("E%d" % i, [Trans(next(tid), idle, "E%d" % i, None, actions=acts(i))]))
        am = AM(nodes, max_iter=mi)
    elif kind == "raise_cycle":
        nodes[idle].on.append(("GO", [Trans(next(tid), idle, "GO", None, actions=[("mark", 10)] + [("raise", "GO", 1)] * k)]))
        am = AM(nodes, max_iter=mi)
    elif kind == "raise_cycle_inert":
        # the self-raise is accompanied by k events nobody handles: every other macrostep of the chain queues nothing
        # (third-round seeded change C13-C reset the chain count on such a macrostep)
        nodes[idle].on.append(("GO", [Trans(next(tid), idle, "GO", None,
                                            actions=[("mark", 10), ("raise", "GO", 1)] + [("raise", "AUDIT", 2)] * k)]))
        am = AM(nodes, max_iter=mi)
    elif kind == "always_raise_cycle":
        # a --GO--> b ; b --always--> a raising GO again: a cycle through BOTH always and raise (one raise action)
        b = add(0, "b", "atomic")
        nodes[idle].on.append(("GO", [Trans(next(tid), idle, "GO", b, actions=[("mark", 10)])]))
        nodes[b].on.append(("", [Trans(next(tid), b, "", idle, actions=[("raise", "GO", 1)])]))
        am = AM(nodes, max_iter=mi)
    elif kind == "done_cycle":
        w = add(0, "w", "compound")
        f = add(w, "f", "final")
        nodes[w].initial = f
        nodes[idle].on.append(("GO", [Trans(next(tid), idle, "GO", w)]))
        am = AM(nodes, max_iter=mi)
        nodes[w].ondone = Trans(next(tid), w, "done.state." + am.sid(w), w, reenter=True, actions=[("mark", 10)])
    elif kind == "start_cycle":
        a = add(0, "a", "atomic"); b = add(0, "b", "atomic")
        nodes[0].initial = a
        nodes[a].on.append(("", [Trans(next(tid), a, "", b)]))
        nodes[b].on.append(("", [Trans(next(tid), b, "", a)]))
        am = AM(nodes, max_iter=mi)
    am.probe_mark = PROBE
    am.chain_len = k
    am.fanout = k if kind == "raise_cycle" else (k + 1 if kind == "raise_cycle_inert" else 1)
    return am


def family(rng, tier):
    cases = []
    i = 0
    for mi in (3, 5):
        for kind in ("always_chain", "always_cycle", "raise_chain", "raise_cycle", "raise_cycle_inert", "always_raise_cycle", "done_cycle", "start_cycle"):
            ks = {"always_chain": [mi - 1, mi, mi + 1], "always_cycle": [1, 2, 3], "raise_chain": [mi - 1, mi, mi + 1, 2 * mi + 2],
                  "raise_cycle": [1, 2], "raise_cycle_inert": [1, 2], "always_raise_cycle": [1], "done_cycle": [1], "start_cycle": [2]}[kind]
            for k in ks:
                for engine in ("sync", "async"):
                    am = loop_machine(rng, kind, k, mi)
                    runs = [({}, [("GO", "plain", 100), ("PING", "plain", 101)]),
                            ({}, [("burst", [("GO", "plain", 100), ("PING", "plain", 101), ("PING", "plain", 102)]), ("PING", "plain", 103)])]
                    cases.append((am, engine, runs, None))
                    i += 1
    return cases


def run(rep, ctx):
    rng = random.Random(ctx["seed"] * 7919 + 13)
    big = ctx["tier"] == "thorough"
    dis_all, fail_all = [], []
    fams = [("loops", family(rng, ctx["tier"]),
             "self-feeding machines: always chains of length maxIterations-1 / = / +1, always cycles of length 1-3, raise chains below/at/above "
             "the bound, raise cycles with fan-out 1-2, a self-raise accompanied by 1-2 events nobody handles, an onDone that re-completes its own state, a cycle at start(); maxIterations 3 and 5; "
             "both engines; each run ends with a probe event that must still be answered"),
            ("random", common.random_family(rng, 900 if big else 200, features=dict(max_iter=rng.choice([3, 4, 6]))),
             "seeded random machines with small maxIterations (raise / always / onDone feedback)")]
    for name, cases, rule in fams:
        dis, fails, stats = common.run_macro_property(rep, ctx, "c13_" + name, cases, monitor, rule)
        dis_all += dis
        fail_all += fails
    core.decide(rep, ctx["proof"], dis_all, fail_all, None)
    rep.assumptions += ["'never starves the host' is observed as: the async loop reaches quiescence within a 3 s watchdog on a virtual-time loop; "
                        "wall-clock responsiveness itself is outside the model (DESIGN.md section 8)"]


def replay(payload):
    return common.replay_macro(payload, monitor)
