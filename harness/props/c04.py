"""C04 - run-to-completion and lossless, ordered event processing."""
from __future__ import annotations

import itertools
import random

from harness import core
from harness import am as AMm
from harness.am import AM, Node, Trans
from harness.props import common

LEVEL = "proof"


def flat_events(events):
    out = []
    for e in events:
        out += list(e[1]) if e[0] == "burst" else [e]
    return out


def monitor(am, engine, cx, events, snaps):
    out = []
    if any("special" in s for s in snaps):
        return out
    log = snaps[-1]["log"]
    sent = [e[2] for e in flat_events(events) if e[2] >= 100]
    begun = [o[2] for o in log if o[0] == "begin" and o[2] >= 100]
    # exactly once, in sending order
    if len(set(begun)) != len(begun):
        dup = [t for t in begun if begun.count(t) > 1]
        out.append(("external event(s) with tag %s processed more than once" % sorted(set(dup)), None))
    it = iter(sent)
    if not all(any(t == s for s in it) for t in begun):
        out.append(("external events processed out of order: sent %s, processed %s" % (sent, begun), None))
    # nothing accepted while running is lost
    status_at = {}
    k = 1
    for e in events:
        for x in (e[1] if e[0] == "burst" else [e]):
            status_at[x[2]] = snaps[k - 1]["status"] if k - 1 < len(snaps) else None
        k += 1
    lost = [t for t in sent if t not in begun and status_at.get(t) == 1]
    final_status = snaps[-1]["status"]
    if lost and final_status == 1:
        cuts = [o[1] for o in log if o[0] == "cut"]
        sig = None
        if engine == "sync" and 0 in cuts:
            sig = dict(kind="external-event-dropped", cause="sync-per-drain-bound")
        elif engine == "async" and 2 in cuts:
            sig = dict(kind="external-event-dropped", cause="async-raise-chain-breaker")
        if not any(o[0] == "err" for o in log) or sig:
            out.append(("external event(s) %s accepted while running were never processed (cuts: %s)" % (lost, cuts), sig))
    # each event is processed on a stable (legal) configuration: never interleaved with a transition in flight
    active = set()
    started = False
    for o in log:
        if o[0] == "enter":
            active.add(o[1])
        elif o[0] == "leave":
            active.discard(o[1])
        elif o[0] == "begin":
            if not am.legal(active):
                out.append(("event %r began processing on the unstable configuration %s (interleaved with a transition in flight)"
                            % (o[1], sorted(active)), None))
    out.sort(key=lambda f: f[1] is not None)
    return out[:1]


def start_raise_machine(rng):
    """entry / always actions at start-up that raise events (the F1 shape and neighbours)."""
    tid = itertools.count(1)
    mark = itertools.count(1)
    nodes = [Node(0, "m", None, "compound"), Node(1, "a", 0, "atomic"), Node(2, "b", 0, "atomic"), Node(3, "c", 0, "atomic"),
             Node(4, "d", 0, "compound"), Node(5, "x", 4, "atomic")]
    nodes[0].children = [1, 2, 3, 4]; nodes[4].children = [5]; nodes[4].initial = 5
    nodes[0].initial = 1
    am = AM(nodes, max_iter=rng.choice([4, 6]))
    acts = lambda: [rng.choice([("raise", rng.choice(["E", "F"]), rng.randint(1, 9)), ("mark", next(mark))]) for _ in range(rng.randint(1, 3))]
    if rng.random() < 0.7:
        nodes[1].entry = acts()
    if rng.random() < 0.8:
        nodes[1].on.append(("", [Trans(next(tid), 1, "", rng.choice([2, 4]), actions=acts())]))
    if rng.random() < 0.5:
        nodes[0].entry = acts()
    for s in (1, 2, 4):
        for e in ("E", "F"):
            if rng.random() < 0.6:
                nodes[s].on.append((e, [Trans(next(tid), s, e, rng.choice([1, 2, 3, 4]), actions=[("mark", next(mark))])]))
    # the start-up step itself may SUSPEND (async engine): the initial state owns a timer, so leaving it awaits the cancellation
    # of a task, or the eventless transition runs an awaiting action - events raised during start must still wait for the
    # start-up settle to finish (third-round seeded change C04-C released the consumer loop before the settle)
    r = rng.random()
    if r < 0.35:
        d = rng.choice([500, 900])
        nodes[1].after.append((d, [Trans(next(tid), 1, "after.%d.%s" % (d, am.sid(1)), 3, actions=[("mark", next(mark))])]))
    elif r < 0.6:
        for key, ts in nodes[1].on:
            if key == "":
                ts[0].actions = [("slow", next(mark), rng.choice([20, 60]))] + ts[0].actions
    return am


def family(rng, n):
    cases = []
    for i in range(n):
        if i % 3 == 0:
            am = start_raise_machine(rng)
            events = ["E", "F"]
        else:
            am, events = AMm.random_machine(rng, max_nodes=8, features=dict(max_iter=rng.choice([3, 5, 8])))
        runs = []
        for r in range(2):
            tag = itertools.count(100)
            ops = []
            for _ in range(rng.randint(1, 4)):
                if rng.random() < 0.45:
                    ops.append(("burst", [(rng.choice(events), "plain", next(tag)) for _ in range(rng.randint(2, 7))]))
                else:
                    ops.append((rng.choice(events), "plain", next(tag)))
            runs.append(({0: rng.randint(0, 2), 1: rng.randint(0, 2)}, ops))
        cases.append((am, ("sync", "async")[i % 2], runs, None))
    return cases


def run(rep, ctx):
    rng = random.Random(ctx["seed"] * 7919 + 4)
    big = ctx["tier"] == "thorough"
    cases = family(rng, 1500 if big else 300)
    dis, fails, stats = common.run_macro_property(
        rep, ctx, "c04_bursts", cases, monitor,
        "random machines with raising actions (small maxIterations) and start-up machines whose entry/always actions raise; operations are "
        "single sends and send_events bursts of 2-7 externally tagged events; monitor: each accepted external event begins processing exactly "
        "once, in sending order, on a legal (stable) configuration")

    # producers that are other actors: an interpreter relaying events to / from its children
    from harness.props import c15
    adis, afails, astats = c15.actor_component(c15.relay_family(rng, 400 if big else 80), "c04_relay")
    # (the actor findings of C15 are not C04's business)
    afails = [f for f in afails if f.get("signature") is None]
    dis = dis + adis
    fails = fails + afails
    rep.coverage.setdefault("components", {})["K-actor (relay)"] = dict(scenarios=astats["cases"], steps=astats["steps"], disagreements=len(adis))

    def search(extra):
        _, f2, _ = common.run_macro_property(rep, ctx, "c04_search", family(random.Random(ctx["seed"] + 41), 500), monitor, "search: 500 more")
        return f2 + [f for f in c15.actor_component(c15.relay_family(random.Random(ctx["seed"] + 42), 100), "c04_relay_s")[1] if f.get("signature") is None]
    core.decide(rep, ctx["proof"], dis, fails, search)
    rep.assumptions += ["producers are the caller (single sends and bursts) and raising actions; timer / service / actor producers are "
                        "exercised by C08 / C09 / C15; genuinely concurrent OS threads are outside the model (DESIGN.md section 8)"]


def replay(payload):
    case = payload.get("case") or (payload.get("first_disagreement") or {}).get("case") or {}
    if "steps" in case:
        from harness.props import c15
        return c15.replay(payload)
    return common.replay_macro(payload, monitor)
