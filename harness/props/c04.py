"""C04 - run-to-completion and lossless, ordered event processing."""
from __future__ import annotations

import itertools
import random

from harness import core
from harness import am as AMm
from harness.am import AM, Node, Trans
from harness.props import common

LEVEL = "proof"


def flat_events(events):
    out = []
    for e in events:
        out += list(e[1]) if e[0] == "burst" else [e]
    return out


def monitor(am, engine, cx, events, snaps):
    out = []
    if any("special" in s for s in snaps):
        return out
    log = snaps[-1]["log"]
    sent = [e[2] for e in flat_events(events) if e[2] >= 100]
    begun = [o[2] for o in log if o[0] == "begin" and o[2] >= 100]
    # exactly once, in sending order
    if len(set(begun)) != len(begun):
        dup = [t for t in begun if begun.count(t) > 1]
        out.append(("external event(s) with tag %s processed more than once" % sorted(set(dup)), None))
    it = iter(sent)
    if not all(any(t == s for s in it) for t in begun):
        out.append(("external events processed out of order: sent %s, processed %s" % (sent, begun), None))
    # nothing accepted while running is lost
    status_at = {}
    k = 1
    for e in events:
        for x in (e[1] if e[0] == "burst" else [e]):
            status_at[x[2]] = snaps[k - 1]["status"] if k - 1 < len(snaps) else None
        k += 1
    lost = [t for t in sent if t not in begun and status_at.get(t) == 1]
    final_status = snaps[-1]["status"]
    if lost and final_status == 1:
        cuts = [o[1] for o in log if o[0] == "cut"]
        sig = None
        if engine == "sync" and 0 in cuts:
            sig = dict(kind="external-event-dropped", cause="sync-per-drain-bound")
        elif engine == "async" and 2 in cuts:
            sig = dict(kind="external-event-dropped", cause="async-raise-chain-breaker")
        if not any(o[0] == "err" for o in log) or sig:
            out.append(("external event(s) %s accepted while running were never processed (cuts: %s)" % (lost, cuts), sig))
    # each event is processed on a stable (legal) configuration: never interleaved with a transition in flight
    active = set()
    at_begin = set()
    started = False
    for o in log:
        if o[0] == "enter":
            active.add(o[1])
        elif o[0] == "leave":
            active.discard(o[1])
        elif o[0] == "err":
            # an aborted transition is rolled back: the configuration is again what it was when the event began (no enter records)
            active = set(at_begin)
        elif o[0] == "begin":
            at_begin = set(active)
            if not am.legal(active):
                out.append(("event %r began processing on the unstable configuration %s (interleaved with a transition in flight)"
                            % (o[1], sorted(active)), None))
    out.sort(key=lambda f: f[1] is not None)
    return out[:1]


def start_raise_machine(rng):
    """entry / always actions at start-up that raise events (the F1 shape and neighbours)."""
    tid = itertools.count(1)
    mark = itertools.count(1)
    nodes = [Node(0, "m", None, "compound"), Node(1, "a", 0, "atomic"), Node(2, "b", 0, "atomic"), Node(3, "c", 0, "atomic"),
             Node(4, "d", 0, "compound"), Node(5, "x", 4, "atomic")]
    nodes[0].children = [1, 2, 3, 4]; nodes[4].children = [5]; nodes[4].initial = 5
    nodes[0].initial = 1
    am = AM(nodes, max_iter=rng.choice([4, 6]))
    acts = lambda: [rng.choice([("raise", rng.choice(["E", "F"]), rng.randint(1, 9)), ("mark", next(mark))]) for _ in range(rng.randint(1, 3))]
    if rng.random() < 0.7:
        nodes[1].entry = acts()
    if rng.random() < 0.8:
        nodes[1].on.append(("", [Trans(next(tid), 1, "", rng.choice([2, 4]), actions=acts())]))
    if rng.random() < 0.5:
        nodes[0].entry = acts()
    for s in (1, 2, 4):
        for e in ("E", "F"):
            if rng.random() < 0.6:
                nodes[s].on.append((e, [Trans(next(tid), s, e, rng.choice([1, 2, 3, 4]), actions=[("mark", next(mark))])]))
    # the start-up step itself may SUSPEND (async engine): the initial state owns a timer, so leaving it awaits the cancellation
    # of a task, or the eventless transition runs an awaiting action - events raised during start must still wait for the
    # start-up settle to finish (third-round seeded change C04-C released the consumer loop before the settle)
    r = rng.random()
    if r < 0.35:
        d = rng.choice([500, 900])
        nodes[1].after.append((d, [Trans(next(tid), 1, "after.%d.%s" % (d, am.sid(1)), 3, actions=[("mark", next(mark))])]))
    elif r < 0.6:
        for key, ts in nodes[1].on:
            if key == "":
                ts[0].actions = [("slow", next(mark), rng.choice([20, 60]))] + ts[0].actions
    return am


def family(rng, n):
    cases = []
    for i in range(n):
        if i % 3 == 0:
            am = start_raise_machine(rng)
            events = ["E", "F"]
        else:
            am, events = AMm.random_machine(rng, max_nodes=8, features=dict(max_iter=rng.choice([3, 5, 8])))
        runs = []
        for r in range(2):
            tag = itertools.count(100)
            ops = []
            for _ in range(rng.randint(1, 4)):
                if rng.random() < 0.45:
                    ops.append(("burst", [(rng.choice(events), "plain", next(tag)) for _ in range(rng.randint(2, 7))]))
                else:
                    ops.append((rng.choice(events), "plain", next(tag)))
            runs.append(({0: rng.randint(0, 2), 1: rng.randint(0, 2)}, ops))
        cases.append((am, ("sync", "async")[i % 2], runs, None))
    return cases


def abort_raise_machine(rng):
    """a transition whose exit / transition actions RAISE an event and then hit a fatal configuration error (an action without
    implementation): the transition is rolled back, the interpreter keeps running, and the event that was raised - it had been
    accepted into the queue - must still be processed, exactly once.  (Fifth-round seeded change C04-D made the sync rollback pop
    the queue back to its depth before the transition.)"""
    tid = itertools.count(1)
    mark = itertools.count(1)
    nodes = [Node(0, "m", None, "compound"), Node(1, "a", 0, "atomic"), Node(2, "b", 0, "atomic"), Node(3, "c", 0, "atomic")]
    nodes[0].children = [1, 2, 3]
    nodes[0].initial = 1
    am = AM(nodes, max_iter=8)
    where = rng.choice(["transition", "exit", "both"])
    acts = [("mark", next(mark))]
    if where in ("transition", "both"):
        acts.append(("raise", "F", rng.randint(1, 9)))
    if rng.random() < 0.5:
        acts.append(("raise", "G", rng.randint(1, 9)))
    acts.append(("missing", next(mark)))
    if where in ("exit", "both"):
        nodes[1].exit = [("raise", "G", rng.randint(1, 9)), ("mark", next(mark))]
    nodes[1].on.append(("E", [Trans(next(tid), 1, "E", 2, actions=acts)]))
    nodes[1].on.append(("OK", [Trans(next(tid), 1, "OK", 2, actions=[("raise", "F", rng.randint(1, 9)), ("mark", next(mark))])]))
    nodes[2].on.append(("BACK", [Trans(next(tid), 2, "BACK", 1, actions=[("mark", next(mark))])]))
    for ev, tgt in (("F", rng.choice([None, 3])), ("G", None)):
        nodes[0].on.append((ev, [Trans(next(tid), 0, ev, tgt, actions=[("mark", next(mark))])]))
    return am


def abort_raise_family(rng, n):
    cases = []
    for i in range(n):
        am = abort_raise_machine(rng)
        runs = []
        for r in range(2):
            tag = itertools.count(100)
            ops = [("E", "plain", next(tag))]
            for _ in range(rng.randint(1, 3)):
                e = rng.choice(["E", "OK", "BACK", "F", "E"])
                if rng.random() < 0.3:
                    ops.append(("burst", [(rng.choice(["E", "F", "G"]), "plain", next(tag)) for _ in range(rng.randint(2, 4))]))
                else:
                    ops.append((e, "plain", next(tag)))
            runs.append(({0: 0, 1: 0}, ops))
        cases.append((am, ("sync", "async")[i % 2], runs, None))
    return cases


def raised_monitor(am, engine, cx, events, snaps):
    """the rule of `monitor`, and: every event an action RAISED while the interpreter was running is processed (begins) afterwards,
    as often as it was raised - unless the run was cut by a bound, or the interpreter left `running`"""
    out = monitor(am, engine, cx, events, snaps)
    if out or any("special" in s for s in snaps):
        return out
    log = snaps[-1]["log"]
    if snaps[-1]["status"] != 1 or any(o[0] == "cut" for o in log):
        return out
    raises = {}
    for t in am.all_trans():
        for a in t.actions:
            if a[0] == "raise":
                raises.setdefault(("t", t.tid), []).append(a)
    # what was raised is read off the executed `mark` that precedes it in the same action list (every list here starts with one)
    raised, begun = {}, {}
    for o in log:
        if o[0] == "begin" and o[2] < 100:
            begun[(o[1], o[2])] = begun.get((o[1], o[2]), 0) + 1
    for n in am.nodes:
        lists = [n.entry, n.exit] + [t.actions for _, ts in n.on for t in ts]
        for acts in lists:
            marks = [a[1] for a in acts if a[0] == "mark"]
            for j, a in enumerate(acts):
                if a[0] != "raise":
                    continue
                before = [b[1] for b in acts[:j] if b[0] == "mark"]
                after = [b[1] for b in acts[j + 1:] if b[0] == "mark"]
                # the raise ran as often as the mark before it ran (lists are executed left to right, a fault truncates the rest)
                anchor = before[-1] if before else None
                if anchor is None:
                    continue
                times = sum(1 for o in log if o[0] == "act" and o[1] == anchor)
                raised[(a[1], a[2])] = raised.get((a[1], a[2]), 0) + times
    # (a propagating configuration error leaves the rest of the queue in place for the next send(): what still waits there at the
    #  end of the run is pending, not lost)
    for q in snaps[-1].get("queue", []):
        if len(q) >= 2 and isinstance(q[1], int) and q[1] < 100:
            begun[(q[0], q[1])] = begun.get((q[0], q[1]), 0) + 1
    for key, times in raised.items():
        if begun.get(key, 0) < times:
            out.append(("an action raised event %s (tag %d) %d time(s) while the interpreter was running, but it began processing (or still waits in the queue) only %d time(s): "
                        "an event accepted into the queue was lost" % (key[0], key[1], times, begun.get(key, 0)), None))
            break
    return out[:1]


def run(rep, ctx):
    rng = random.Random(ctx["seed"] * 7919 + 4)
    big = ctx["tier"] == "thorough"
    cases = family(rng, 1500 if big else 300)
    dis, fails, stats = common.run_macro_property(
        rep, ctx, "c04_bursts", cases, monitor,
        "random machines with raising actions (small maxIterations) and start-up machines whose entry/always actions raise; operations are "
        "single sends and send_events bursts of 2-7 externally tagged events; monitor: each accepted external event begins processing exactly "
        "once, in sending order, on a legal (stable) configuration")

    dis2, fails2, _ = common.run_macro_property(
        rep, ctx, "c04_abort", abort_raise_family(rng, 240 if big else 60), raised_monitor,
        "transitions whose exit / transition actions raise events and then abort on a missing implementation (rolled back, interpreter "
        "keeps running): what was raised before the abort is still processed, as often as it was raised")
    dis, fails = dis + dis2, fails + fails2

    # producers that are other actors: an interpreter relaying events to / from its children
    from harness.props import c15
    adis, afails, astats = c15.actor_component(c15.relay_family(rng, 400 if big else 80), "c04_relay")
    # (the actor findings of C15 are not C04's business)
    afails = [f for f in afails if f.get("signature") is None]
    dis = dis + adis
    fails = fails + afails
    rep.coverage.setdefault("components", {})["K-actor (relay)"] = dict(scenarios=astats["cases"], steps=astats["steps"], disagreements=len(adis))

    def search(extra):
        _, f2, _ = common.run_macro_property(rep, ctx, "c04_search", family(random.Random(ctx["seed"] + 41), 500), monitor, "search: 500 more")
        return f2 + [f for f in c15.actor_component(c15.relay_family(random.Random(ctx["seed"] + 42), 100), "c04_relay_s")[1] if f.get("signature") is None]
    core.decide(rep, ctx["proof"], dis, fails, search)
    rep.assumptions += ["producers are the caller (single sends and bursts) and raising actions; timer / service / actor producers are "
                        "exercised by C08 / C09 / C15; genuinely concurrent OS threads are outside the model (DESIGN.md section 8)"]


def replay(payload):
    case = payload.get("case") or (payload.get("first_disagreement") or {}).get("case") or {}
    if "steps" in case:
        from harness.props import c15
        return c15.replay(payload)
    return common.replay_macro(payload, raised_monitor)
