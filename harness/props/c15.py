"""C15 - actor messaging and supervision are exact."""
from __future__ import annotations

import random

from harness import core, actors

LEVEL = "proof"


# ------------------------------------------------------------------ the property text, restated on observations
def plan(steps, trace):
    """Who exists, who sent what: from the scenario and the implementation's own trace (which actor was running when)."""
    meta = [dict(parent=None, key=None, eid=None, sysid=None, born=-1)]
    sends, cancels, stops = [], [], []
    for si, st in enumerate(steps):
        before = trace[si - 1] if si > 0 else dict(t=0.0, running=[True])
        if st[0] == "do":
            me = st[1]
            if me >= len(before["running"]) or not before["running"][me]:
                continue
            for oi, o in enumerate(st[3]):
                if o[0] == "spawn":
                    meta.append(dict(parent=me, key=o[2], eid=o[3] or None, sysid=o[4] or None, born=si, form=o[1]))
                elif o[0] == "sendTo":
                    sends.append(dict(tag=2 * o[2], sender=me, kind="sendTo", spec=o[1], delay=o[3], sid=o[4], step=si, oi=oi, t=before["t"]))
                elif o[0] == "sendParent":
                    sends.append(dict(tag=2 * o[1], sender=me, kind="sendParent", spec=None, delay=o[2], sid=o[3], step=si, oi=oi, t=before["t"]))
                elif o[0] == "forward":
                    sends.append(dict(tag=2 * st[2] + 1, sender=me, kind="forward", spec=o[1], delay=0, sid=None, step=si, oi=oi, t=before["t"]))
                elif o[0] == "cancel":
                    cancels.append(dict(sender=me, sid=o[1], step=si, oi=oi, t=before["t"]))
                elif o[0] == "stopChild":
                    stops.append(dict(by=me, spec=o[1], step=si))
    return meta, sends, cancels, stops


def stop_times(trace, exact=None):
    """actor -> when it was first seen stopped: at the end of a scenario step, or - where the harness saw the actor's own
    stop() complete (a runner thread stops its child between two steps) - at that instant"""
    out = {}
    for tr in trace:
        for i, r in enumerate(tr["running"]):
            if not r and i not in out:
                out[i] = tr["t"]
    for i, t in enumerate(exact or []):
        if t is not None and i in out and t < out[i]:
            out[i] = t
    return out


def clear_target(meta, me, snd):
    """The actor a send addresses, when the addressing form leaves no doubt (else None, 'ambiguous' or 'unclear')."""
    if snd["kind"] == "sendParent":
        return meta[me]["parent"] if meta[me]["parent"] is not None else "nobody"
    spec = snd["spec"]
    sys_hits = [i for i, a in enumerate(meta) if a["sysid"] == spec]
    eid_hits = [i for i, a in enumerate(meta) if a["eid"] == spec]
    key_hits = [i for i, a in enumerate(meta) if a["key"] == spec]
    if len(sys_hits) == 1 and not eid_hits and not key_hits:
        return sys_hits[0]
    if not sys_hits and len(eid_hits) == 1 and meta[eid_hits[0]]["parent"] == me and not key_hits:
        return eid_hits[0]
    mine = [i for i in key_hits if meta[i]["parent"] == me and not meta[i]["eid"]]
    if not sys_hits and not eid_hits and len(mine) >= 2 and len(mine) == len([i for i in key_hits if meta[i]["parent"] == me]):
        return ("ambiguous", mine)
    return "unclear"


def monitor(steps, engine, res):
    trace, inbox = res["trace"], res["inbox"]
    if len(trace) != len(steps) or not trace or res.get("self_forward"):
        # (an actor that forwards a trigger to itself handles it again, and again: a harness artefact)
        return []
    out = []
    meta, sends, cancels, stops = plan(steps, trace)
    if len(meta) != len(trace[-1]["running"]):
        # exactly one child per spawn
        out.append(("%d spawn actions executed, %d child actors were created and started" % (len(meta) - 1, len(trace[-1]["running"]) - 1), None))
        return out[:1]
    stopped_at = stop_times(trace, res.get("stopped"))
    where = {}
    for i, box in enumerate(inbox):
        for tag, t in box:
            where.setdefault(tag, []).append((i, t))
    # (A) nothing is delivered twice
    n_sent = {}
    for s_ in sends:
        n_sent[s_["tag"]] = n_sent.get(s_["tag"], 0) + 1
    for tag, hits in where.items():
        if tag != actors.ESC_TAG and len(hits) > max(1, n_sent.get(tag, 1)):
            out.append(("event with tag %d was delivered %d times (to actors %s)" % (tag, len(hits), [h[0] for h in hits]), None))
    # (C) a stopped actor receives nothing and emits nothing
    by_tag = {s["tag"]: s for s in sends}
    for tag, hits in where.items():
        s = by_tag.get(tag)
        for i, t in hits:
            if i in stopped_at and t > stopped_at[i] + 0.5:
                out.append(("actor %d received tag %d at t=%.1f after it was stopped (t=%.1f)" % (i, tag, t, stopped_at[i]), None))
            if s is not None and s["step"] not in {x["step"] for x in stops} and n_sent.get(tag, 1) == 1 \
                    and s["sender"] in stopped_at and t > stopped_at[s["sender"]] + 0.5:
                out.append(("actor %d, stopped at t=%.1f, still emitted tag %d (received by actor %d at t=%.1f)" % (
                    s["sender"], stopped_at[s["sender"]], tag, i, t), None))
    # (B, E) clear-cut addressing: delivered exactly once to the addressed actor; cancelled sends never; ambiguous keys never
    handlers_with_stop = {x["step"] for x in stops}
    for s in sends:
        if s["step"] in handlers_with_stop or n_sent.get(s["tag"], 1) != 1:
            continue
        tgt = clear_target(meta, s["sender"], s)
        hits = where.get(s["tag"], [])
        if tgt == "unclear":
            continue
        if tgt == "nobody" or (isinstance(tgt, tuple) and tgt[0] == "ambiguous"):
            living = [i for i in (tgt[1] if isinstance(tgt, tuple) else []) if meta[i]["born"] < s["step"] and not (i in stopped_at and stopped_at[i] <= s["t"])]
            if isinstance(tgt, tuple) and len(living) < 2:
                continue
            if hits:
                out.append(("tag %d was addressed by %s (%s) but was delivered to actor(s) %s" % (
                    s["tag"], "a service key that matches several live children" if isinstance(tgt, tuple) else "sendParent from the root",
                    s["spec"], [h[0] for h in hits]), None))
            continue
        due = s["t"] + s["delay"]
        if meta[tgt]["born"] > s["step"] or (meta[tgt]["born"] == s["step"] and True):
            # the target is created in this very handler or later: resolution order inside the handler matters; skip
            if meta[tgt]["born"] >= s["step"]:
                continue
        wrong = [h for h in hits if h[0] != tgt]
        if wrong:
            out.append(("tag %d addressed to actor %d (%s) was delivered to actor %d" % (s["tag"], tgt, s["spec"] or "parent", wrong[0][0]), None))
            continue
        cancelled = s["delay"] and s["sid"] and any(
            c["sender"] == s["sender"] and c["sid"] == s["sid"] and (c["step"], c["oi"]) > (s["step"], s["oi"]) and c["t"] < due - 0.5 for c in cancels)
        later = [o for o in sends if s["delay"] and s["sid"] and o["sender"] == s["sender"] and o["sid"] == s["sid"] and o["delay"]
                 and (o["step"], o["oi"]) > (s["step"], s["oi"]) and o["t"] < due - 0.5]
        if any(not isinstance(clear_target(meta, o["sender"], o), int) for o in later):
            continue        # whether the later send with the same id was scheduled at all depends on an unclear address
        if any(clear_target(meta, o["sender"], o) in stopped_at and stopped_at[clear_target(meta, o["sender"], o)] <= o["t"] + 0.5 for o in later):
            continue        # ... or on whether an actor that had been stopped by then still resolved (normally it does not, and the
            #                 later send is dropped with a warning instead of superseding this one)
        superseded = bool(later)
        if n_sent.get(s["tag"], 1) != 1:
            continue
        sender_dead = s["delay"] and s["sender"] in stopped_at and stopped_at[s["sender"]] < due - 0.5
        target_dead = tgt in stopped_at and stopped_at[tgt] < due + 0.5
        borderline = any(abs(stopped_at.get(x, -1e9) - due) <= 0.5 for x in (s["sender"], tgt))
        if borderline:
            continue
        if cancelled or superseded or sender_dead or target_dead:
            if hits and not target_dead and (cancelled or superseded):
                out.append(("tag %d (send id %s) was cancelled before it fell due but was delivered" % (s["tag"], s["sid"]), None))
            continue
        if due > trace[-1]["t"] - 1:
            continue
        if len(hits) != 1:
            out.append(("tag %d addressed to actor %d (%s), sender and target alive, was delivered %d times" % (
                s["tag"], tgt, s["spec"] or "parent", len(hits)), None))
    # zero-delay events between one sender and one target arrive in sending order
    for i, box in enumerate(inbox):
        seq = [by_tag[tag] for tag, _ in box if tag in by_tag and not by_tag[tag]["delay"] and n_sent.get(tag, 1) == 1]
        for a, b in zip(seq, seq[1:]):
            if a["sender"] == b["sender"] and (a["step"], a["oi"]) > (b["step"], b["oi"]):
                out.append(("actor %d received tags %d and %d from actor %d out of sending order" % (i, a["tag"], b["tag"], a["sender"]), None))
    # (D) supervision: stopChild / stop() take the whole subtree down and out of the children map and the registry
    for si, st in enumerate(steps):
        if si == 0:
            continue
        before, after = trace[si - 1], trace[si]

        def subtree(r):
            seen, todo = [], [r]
            while todo:
                x = todo.pop()
                if x is None or x in seen or x >= len(before["children"]):
                    continue
                seen.append(x)
                todo += before["children"][x]
            return seen
        roots = []
        if st[0] == "stop" and st[1] < len(before["running"]) and before["running"][st[1]]:
            roots = [(st[1], "stop() of actor %d" % st[1], False)]
        if st[0] == "do" and st[1] < len(before["running"]) and before["running"][st[1]]:
            for c in before["children"][st[1]]:
                if c is not None and before["running"][c] and not after["running"][c] and any(o[0] == "stopChild" for o in st[3]) \
                        and after["running"][st[1]]:
                    roots.append((c, "stopChild by actor %d" % st[1], True))
        for r, why, is_child in roots:
            # descendants by parent pointer that the children maps no longer know: orphans
            known = set(subtree(r))
            for d in range(len(after["running"])):
                x, chain = d, []
                while x is not None and x not in chain and x < len(after["parent"]):
                    chain.append(x)
                    x = after["parent"][x]
                if d not in known and r in chain and d < len(before["running"]) and after["running"][d]:
                    reused = any(j > d and meta[j]["parent"] == meta[d]["parent"] and meta[j]["eid"] and meta[j]["eid"] == meta[d]["eid"]
                                 for j in range(len(meta))) if d < len(meta) else False
                    anc_reused = any(any(j > a and meta[j]["parent"] == meta[a]["parent"] and meta[j]["eid"] and meta[j]["eid"] == meta[a]["eid"]
                                         for j in range(len(meta))) for a in chain if a < len(meta) and a != r)
                    # the actor whose id was reused: on the sync engine a thread-managed child has a runner thread that stops it
                    # once it is no longer its parent's entry; finding F30 is about the actors that have none
                    def is_reused(a):
                        return a < len(meta) and any(j > a and meta[j]["parent"] == meta[a]["parent"] and meta[j]["eid"] and meta[j]["eid"] == meta[a]["eid"]
                                                     for j in range(len(meta)))
                    lost = next((a for a in chain[:chain.index(r)] if is_reused(a)), None)     # between d and the stopped actor
                    has_runner = lost is not None and engine == "sync" and meta[lost].get("form") != "blocking"
                    out.append(("%s left descendant actor %d running (it is no longer in any children map%s)" % (
                                    why, d, "; thread-managed actor %d should have been stopped by its runner thread" % lost if has_runner else ""),
                                dict(kind="running-descendant-after-stop", cause="explicit-id-reused-while-alive") if (reused or anc_reused) and not has_runner else None))
            for d in subtree(r):
                if d < len(after["running"]) and after["running"][d]:
                    out.append(("%s left descendant actor %d running" % (why, d), None))
                if (d != r or is_child) and d in after["registry"].values():
                    out.append(("%s left actor %d in the actor-system registry" % (why, d), None))
            if is_child and r in after["children"][st[1]]:
                out.append(("%s left actor %d in the children map" % (why, r), None))
    return out[:2]


# ------------------------------------------------------------------ families
def family(rng, n):
    cases = []
    for sc in actors.directed_scenarios():
        for eng in ("sync", "async"):
            cases.append((sc, eng, 3))
    for i in range(n):
        sc = actors.random_scenario(rng, rng.choice([6, 10, 14]), rich=(i % 4 != 0))
        cases.append((sc, ("sync", "async")[i % 2], 3))
    return cases


def relay_family(rng, n):
    """An actor relays every trigger it gets to another actor, many times in a row, on machines with a small
    maxIterations: relaying is not self-raising, nothing may be throttled or lost (C04, C13)."""
    cases = []
    for i in range(n):
        steps = [("do", 0, 1, [("spawn", rng.choice(["plain", "builtin"]), "w", "a", rng.choice([None, "sysA"])),
                               ("spawn", "plain", "w", "b", "sysB")]), ("adv", 100)]
        k, msg, t = 1, 0, 100
        for _ in range(rng.choice([5, 8, 12, 16])):
            k += 1
            msg += 1
            who = rng.choice([0, 0, 0, 1, 2])
            if who == 0:
                op = rng.choice([("sendTo", "a", msg, 0, None), ("sendTo", "sysB", msg, 0, None), ("forward", "b")])
            else:
                op = rng.choice([("sendParent", msg, 0, None), ("sendTo", "sysB" if who == 1 else "parent", msg, 0, None)])
            steps.append(("do", who, k, [op]))
            if rng.random() < 0.15:
                t += 100
                steps.append(("adv", t))
        steps.append(("adv", t + 200))
        cases.append((steps, ("async", "sync")[i % 2], rng.choice([2, 3, 5])))
    return cases


def silence_family(rng, n):
    """Actors with delayed sends (with and without send ids) pending towards live actors are stopped - by stopChild,
    as descendants, by stop() - before the delay elapses: nothing may arrive afterwards (C14, C15)."""
    cases = []
    for i in range(n):
        steps = [("do", 0, 1, [("spawn", "plain", "w", "a", "sysA"), ("spawn", rng.choice(["plain", "blocking"]), "w", "b", "sysB")]), ("adv", 100),
                 ("do", 1, 2, [("spawn", "plain", "g", "x", "sysG")]), ("adv", 200)]
        k, msg = 2, 0
        for who in rng.sample([1, 1, 3, 3, 2], 3):
            k += 1
            ops = []
            for _ in range(rng.choice([1, 2, 3])):
                msg += 1
                sid = rng.choice([None, None, "s1", "s2"])
                ops.append(rng.choice([("sendParent", msg, rng.choice([160, 250]), sid),
                                       ("sendTo", "sysB", msg, rng.choice([160, 250]), sid),
                                       ("sendTo", "sysA", msg, rng.choice([70, 160]), sid)]))
            steps.append(("do", who, k, ops))
        steps.append(("adv", 250))
        k += 1
        steps.append(rng.choice([("do", 0, k, [("stopChild", rng.choice(["a", "sysA"]))]), ("stop", 1), ("stop", 0), ("do", 1, k, [("stopChild", "x")])]))
        steps.append(("adv", 1000))
        cases.append((steps, ("sync", "async")[i % 2], 3))
    return cases


def actor_component(cases, name):
    """K-actor + the C15 monitor on a family of actor scenarios -> (disagreements, monitor failures, stats)"""
    disagreements, stats, results = actors.check(cases, name)
    failures = []
    for (steps, engine, mi), res in zip(cases, results):
        for what, sig in monitor(steps, engine, res):
            failures.append(dict(case=dict(steps=steps, engine=engine, max_iter=mi), what=what, signature=sig))
    return disagreements, failures, stats


def run(rep, ctx):
    rng = random.Random(ctx["seed"] * 7919 + 15)
    big = ctx["tier"] == "thorough"
    cases = family(rng, 3000 if big else 500) + relay_family(rng, 300 if big else 40) + silence_family(rng, 300 if big else 40)
    disagreements, stats, results = actors.check(cases, "c15")
    failures = []
    for (steps, engine, mi), res in zip(cases, results):
        for what, sig in monitor(steps, engine, res):
            failures.append(dict(case=dict(steps=steps, engine=engine, max_iter=mi), what=what, signature=sig))
    rep.coverage.update(evaluations=len(cases), distinct_nontrivial=len({core.case_hash([c[0], c[1]]) for c in cases}),
                        rule="actor scenarios over trees of up to 7 actors (depth <= 3): spawnChild / spawn_<key> / spawn_blocking_<key> with "
                             "explicit ids (incl. prefix-related w1/w10 and reused ids), auto ids, systemIds (incl. re-registration); sendTo by "
                             "systemId / id / service key / 'parent' / unknown names, sendParent, forwardTo, escalate, each with delays and send "
                             "ids; cancel; stopChild by every addressing form; stop() of any actor; on both engines under virtual time. "
                             "Model and implementation compared on: liveness, ordered inbox of every actor, children maps, service keys, send "
                             "registry, actor-system registry, dropped / ambiguous warnings",
                        samples=[dict(engine=c[1], steps=[list(map(str, s)) for s in c[0][:4]]) for c in cases[20:23]],
                        traces_validated_against_impl=stats["cases"] - stats["impl_timeouts"],
                        components={"K-actor": dict(scenarios=stats["cases"], steps=stats["steps"], ops=stats["ops"], engines=stats["engines"],
                                                    impl_timeouts=stats["impl_timeouts"], disagreements=len(disagreements))})

    def search(extra):
        out = []
        for c in extra:
            if not c:
                continue
            res = actors.run_impl_case((c["steps"], c["engine"], c.get("max_iter")))
            for what, sig in monitor(c["steps"], c["engine"], res):
                out.append(dict(case=c, what=what, signature=sig))
        return out
    # stopChild / stop() on a child that had already FINISHED while it still owned children and delayed sends (implementation only:
    # Model/Actors.v has no `finish` step) - the family and monitor of the C14 check, here for "stopChild and the parent's stop() stop
    # the child and all its descendants ... so they receive and emit nothing afterwards"
    from harness.props import c14
    ffails, fstats = c14.finished_component(c14.finished_child_family(random.Random(ctx["seed"] * 7919 + 1514), 200 if ctx["tier"] == "thorough" else 60))
    failures += ffails
    rep.coverage["components"]["monitor: stopChild / stop() of a finished child that owns descendants (implementation only)"] = fstats
    core.decide(rep, ctx["proof"], disagreements, failures, search)
    rep.assumptions += ["every actor runs a recording machine (no state changes of its own), operations are triggered one at a time at quiescent "
                        "points: interleavings of handlers of different actors inside one macrostep are outside the model",
                        "asyncio task scheduling and OS threads are replaced by deterministic virtual-time schedulers in the harness process"]


def replay(payload):
    case = payload.get("case") or (payload.get("first_disagreement") or {}).get("case")
    if not case:
        print("no concrete case:", payload.get("broken"))
        return 1
    if case.get("finished_child"):
        from harness.props import c14
        return c14.replay(payload)
    steps = [tuple(s[:3]) + ([tuple(o) for o in s[3]],) if s[0] == "do" else tuple(s) for s in case["steps"]]
    res = actors.run_impl_case((steps, case["engine"], case.get("max_iter")))
    for st, tr in zip(steps, res["trace"]):
        print(st, "->", tr)
    print("inboxes:", res["inbox"])
    bad = monitor(steps, case["engine"], res)
    for b in bad:
        print("MONITOR:", b)
    mt, it = actors.diff_case(steps, case["engine"], case.get("max_iter") or 3)
    if mt != it:
        print("MODEL:", mt)
        print("IMPL :", it)
    return 1 if (bad or mt != it) else 0
