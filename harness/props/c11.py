"""C11 - history states restore the last active sub-configuration."""
from __future__ import annotations

import itertools
import random

from harness import core
from harness.am import AM, Node, Trans
from harness.props import common

LEVEL = "proof"


def dflt(am, s):
    n = am.nodes[s]
    out = {s}
    if n.kind == "compound" and n.initial is not None:
        out |= dflt(am, n.initial)
    elif n.kind == "parallel":
        for c in n.children:
            if not am.nodes[c].kind.startswith("hist"):
                out |= dflt(am, c)
    return out


def enter_closure(am, path):
    out = set(path)
    for x in path:
        n = am.nodes[x]
        if n.kind == "compound":
            if not any(c in path for c in n.children) and n.initial is not None:
                out |= dflt(am, n.initial)
        elif n.kind == "parallel":
            for c in n.children:
                if c not in path and not am.nodes[c].kind.startswith("hist"):
                    out |= dflt(am, c)
    return out


def path_between(am, top, s):
    """states strictly below `top` down to s, top-most first"""
    chain = am.anc_self(s)
    return list(reversed(chain[:chain.index(top)]))


def expected_below(am, h, R):
    p = am.nodes[h].parent
    rec = R.get(p)
    if rec:
        if am.nodes[h].kind == "hist_deep":
            return set(rec)
        kids = [c for c in rec if am.nodes[c].parent == p]
        out = set()
        for c in kids:
            out |= enter_closure(am, [c])
        return out
    t = am.nodes[h].hist_default
    if t is not None:
        if am.is_desc(t, p) and t != p:
            return enter_closure(am, [p] + path_between(am, p, t)) - {p}
        return None  # default target outside the parent: not the documented use
    return dflt(am, p) - {p}


def monitor(am, engine, cx, events, snaps):
    out = []
    if any("special" in s for s in snaps):
        return out
    log = snaps[-1]["log"]
    tmap = {t.tid: t for t in am.all_trans()}
    hist_parents = {n.parent for n in am.nodes if n.kind.startswith("hist")}
    active = set()
    seg_start = set()
    R = {}
    R_before = {}
    entered = {}
    aborted = False
    for o in log:
        if o[0] == "enter":
            active.add(o[1])
            entered[o[1]] = entered.get(o[1], 0) + 1
        elif o[0] == "leave":
            if o[1] in hist_parents:
                R[o[1]] = {s for s in seg_start if s != o[1] and am.is_desc(s, o[1])}
            active.discard(o[1])
        elif o[0] == "err":
            aborted = True
        elif o[0] == "trans":
            t = tmap.get(o[1])
            if t is not None and isinstance(t.target, int) and am.nodes[t.target].kind.startswith("hist") and not aborted:
                h = t.target
                p = am.nodes[h].parent
                if p not in seg_start and not am.is_desc(t.src, p):
                    exp = expected_below(am, h, R_before)
                    got = {s for s in o[2] if s != p and am.is_desc(s, p)}
                    if exp is not None and got != exp:
                        out.append(("transition %d into history state %d restored %s below its parent %d, expected %s (recorded: %s)"
                                    % (o[1], h, sorted(got), p, sorted(exp), sorted(R_before.get(p, []))), None))
                    twice = [s for s, c in entered.items() if c > 1 and am.is_desc(s, p)]
                    if twice:
                        out.append(("restoring history %d entered %s more than once" % (h, twice), None))
            seg_start = set(active)
            R_before = {k: set(v) for k, v in R.items()}
            entered = {}
            aborted = False
        elif o[0] == "begin":
            seg_start = set(active)
            R_before = {k: set(v) for k, v in R.items()}
            entered = {}
            aborted = False
    return out[:1]


def history_machine(rng):
    """m: out (atomic) | p (compound or parallel, with a shallow and/or deep history child, nested 2-3 levels)."""
    tid = itertools.count(1)
    mark = itertools.count(1)
    nodes = [Node(0, "m", None, "compound")]

    def add(parent, key, kind):
        n = Node(len(nodes), key, parent, kind)
        nodes.append(n)
        nodes[parent].children.append(n.idx)
        return n.idx
    out_ = add(0, "out", "atomic")
    nodes[0].initial = out_
    pkind = "parallel" if rng.random() < 0.4 else "compound"
    holder = 0
    if rng.random() < 0.3:
        holder = add(0, "w", "compound")
    p = add(holder, "p", pkind)
    if holder:
        nodes[holder].initial = p
    hists = []
    kinds = rng.choice([["hist_shallow"], ["hist_deep"], ["hist_shallow", "hist_deep"]])
    leaves = []

    def grow(parent, depth):
        nkids = rng.randint(2, 3)
        kids = []
        for j in range(nkids):
            key = ("a", "ab", "b")[j]
            if depth < 2 and rng.random() < 0.45:
                k = add(parent, key, rng.choice(["compound", "compound", "parallel"]))
                grow(k, depth + 1)
            else:
                lk = "final" if (nodes[parent].kind == "compound" and j > 0 and rng.random() < 0.35) else "atomic"
                k = add(parent, key, lk)
                leaves.append(k)
            kids.append(k)
        if nodes[parent].kind == "compound":
            nodes[parent].initial = kids[0]
        return kids
    pk = grow(p, 0)
    for hk in kinds:
        h = add(p, "h" + hk[5], hk)
        hists.append(h)
        if rng.random() < 0.3 and nodes[p].kind == "compound":
            nodes[h].hist_default = rng.choice(pk)
    # the history children DECLARED FIRST (document order), before the sibling subtrees - with a nested history holder inside one of
    # those subtrees this is two history owners on one exit chain, the outer one's pseudo-state ahead of the branch that holds the inner
    # (sixth-round seeded change C11-E indexed the history owners once, leaving a state's child loop at its first history child)
    first = rng.random() < 0.45
    if first:
        nodes[p].children = [h for h in hists] + [c for c in nodes[p].children if c not in hists]
    # a nested history holder too, sometimes
    inner = [n.idx for n in nodes if n.kind == "compound" and n.idx not in (0, holder, p) and n.parent is not None]
    if inner and rng.random() < (0.7 if first else 0.4):
        q = rng.choice(inner)
        hists.append(add(q, "hq", rng.choice(["hist_shallow", "hist_deep"])))
    am = AM(nodes, max_iter=6)
    events = []
    for x in nodes:
        if x.kind.startswith("hist") or x.idx == 0:
            continue
        x.entry = [("mark", next(mark))]
    # moves between leaves (target by absolute id), leave to `out`, come back through each history state
    for i, l in enumerate(leaves):
        e = "L%d" % i
        events.append(e)
        nodes[0].on.append((e, [Trans(next(tid), 0, e, l)]))
    nodes[p].on.append(("OUT", [Trans(next(tid), p, "OUT", out_)]))
    events.append("OUT")
    for j, h in enumerate(hists):
        e = "H%d" % j
        events.append(e)
        nodes[out_].on.append((e, [Trans(next(tid), out_, e, h)]))
    nodes[out_].on.append(("IN", [Trans(next(tid), out_, "IN", p)]))
    events.append("IN")
    # ... and, on half of the machines, from INSIDE the parent: the parent is left and re-entered by the same transition, and
    # what is restored is what was recorded by the last exit inside the parent (every move between its children records)
    am.has_back = rng.random() < 0.5
    if am.has_back:
        nodes[p].on.append(("BACK", [Trans(next(tid), p, "BACK", hists[0])]))
        events.append("BACK")
    return am, events, len(leaves), len(hists)


def family(rng, n):
    cases = []
    for i in range(n):
        am, events, nl, nh = history_machine(rng)
        runs = []
        for _ in range(3):
            seq = []
            style = rng.choice(["never", "once", "many"])
            if style != "never":
                for _ in range(1 if style == "once" else rng.randint(2, 3)):
                    seq += ["L%d" % rng.randrange(nl) for _ in range(rng.randint(1, 2))] + ["OUT"]
                    if style == "many" and rng.random() < 0.5:
                        seq += ["H%d" % rng.randrange(nh), "L%d" % rng.randrange(nl), "OUT"]
            seq += ["H%d" % rng.randrange(nh)]
            if rng.random() < 0.5:
                seq += ["OUT", "H%d" % rng.randrange(nh)]
            if getattr(am, "has_back", False):
                # moves inside the parent, then back through the history state without leaving the parent first
                for _ in range(rng.randint(1, 2)):
                    seq += ["L%d" % rng.randrange(nl) for _ in range(rng.randint(1, 3))] + ["BACK"]
            runs.append(({}, [(e, "plain", j + 1) for j, e in enumerate(seq)]))
        cases.append((am, ("sync", "async")[i % 2], runs, None))
    return cases


def run(rep, ctx):
    rng = random.Random(ctx["seed"] * 7919 + 11)
    big = ctx["tier"] == "thorough"
    dis_all, fail_all = [], []
    fams = [("hist", family(rng, 1200 if big else 160),
             "history machines: shallow and/or deep history children under a compound or parallel parent (optionally nested, with a default "
             "target), subtrees 2-3 levels deep; histories: never visited / visited once / repeatedly with different leaves, "
             "re-entered through each history state from outside the parent and (half of the machines) from inside it"),
            ("random", common.random_family(rng, 800 if big else 160, features=dict(history=True)), "seeded random machines with history states")]
    for name, cases, rule in fams:
        dis, fails, stats = common.run_macro_property(rep, ctx, "c11_" + name, cases, monitor, rule)
        dis_all += dis
        fail_all += fails

    # the same whether the history was recorded in this interpreter or came back from a snapshot: every cut point of
    # history runs, restored interpreter vs the uninterrupted one (the comparison of C12, on this family)
    from concurrent.futures import ProcessPoolExecutor
    from harness.props import c12
    jobs = []
    for am, engine, runs, _ in family(rng, 300 if big else 60):
        cx, events = runs[0]
        for k in range(len(events) + 1):
            jobs.append((am, engine, cx, events, k))
    with ProcessPoolExecutor(max_workers=14) as ex:
        rres = list(ex.map(c12.one, jobs, chunksize=4))
    for (am, engine, cx, events, k), r in zip(jobs, rres):
        for what, sig in c12.monitor_case(am, engine, cx, events, k, r):
            fail_all.append(dict(case=dict(common.case_payload(am, engine, cx, events), cut=k), what="history through a snapshot: " + what, signature=sig))
    rep.coverage.setdefault("components", {})["restore-vs-uninterrupted"] = dict(cut_points=len(jobs))

    def search(extra):
        _, fails, _ = common.run_macro_property(rep, ctx, "c11_search", family(random.Random(ctx["seed"] + 111), 400), monitor,
                                                "search: 400 more history machines")
        return fails
    core.decide(rep, ctx["proof"], dis_all, fail_all, search)
    rep.assumptions += ["the model-level snapshot correspondence (K-snap) runs in C12's check; here the restored implementation is compared with "
                        "the uninterrupted implementation"]


def replay(payload):
    if "cut" in (payload.get("case") or {}):
        from harness.props import c12
        return c12.replay(payload)
    return common.replay_macro(payload, monitor)
