"""C18 - config front-end: spellings are equivalent, malformed input fails loudly."""
from __future__ import annotations

import glob
import json
import logging
import os
import random
import re

from harness import core, spell, tomodel
from harness import am as AMm

LEVEL = "proof"
CORPUS = core.REPO + "/tests/tests_cli/stately_machines"


# ------------------------------------------------------------------ workers (run in subprocesses of the pool)
def build(cfg):
    from xstate_statemachine import create_machine, MachineLogic
    logging.disable(logging.CRITICAL)
    return create_machine(cfg, logic=MachineLogic())


def spelling_case(args):
    """-> dict(trees=[(orig, rewritten)...], traces_differ=[...], used=[...], error=...)"""
    cfg, seed, n_rewrites, targets = args
    rng = random.Random(seed)
    out = dict(pairs=[], trace_diffs=[], used=[], errors=[])
    try:
        m0 = build(cfg)
    except Exception as exc:  # noqa
        out["errors"].append("original rejected: %s" % type(exc).__name__)
        return out
    t0 = tomodel.deep(m0)
    alphabet = tomodel.names(m0)[3] + ["NOPE"]
    seqs = [[rng.choice(alphabet) for _ in range(8)] for _ in range(2)]
    base = {}
    for eng in ("sync", "async"):
        for si, evs in enumerate(seqs):
            tr = (tomodel.trace_sync if eng == "sync" else tomodel.trace_async)(build(cfg), evs)
            base[(eng, si)] = tr
    for k in range(n_rewrites):
        cfg2, used = spell.rewrite(cfg, rng, targets=targets)
        try:
            m2 = build(cfg2)
        except Exception as exc:  # noqa
            out["errors"].append(dict(what="rewritten config rejected: %s: %s" % (type(exc).__name__, str(exc)[:200]), cfg=cfg2, used=used))
            continue
        out["used"] += used
        out["pairs"].append((t0, tomodel.deep(m2), cfg2, used))
        for eng in ("sync", "async"):
            for si, evs in enumerate(seqs):
                tr = (tomodel.trace_sync if eng == "sync" else tomodel.trace_async)(build(cfg2), evs)
                if ("TIMEOUT",) in tr[0] or ("TIMEOUT",) in base[(eng, si)][0]:
                    continue        # a machine that livelocks (finding F24 / C13) has no trace to compare
                if tr != base[(eng, si)]:
                    a, b = base[(eng, si)], tr
                    first = next((i for i, (x, y) in enumerate(zip(a[0], b[0])) if x != y), None)
                    out["trace_diffs"].append(dict(engine=eng, events=evs, cfg=cfg2, used=used, at=first,
                                                   original=[list(map(str, x)) for x in a[0][:12]], rewritten=[list(map(str, x)) for x in b[0][:12]]))
    return out


def outcome(cfg, events):
    """What happens to a config: accepted / rejected with a library error (stage) / a raw exception (stage)."""
    from xstate_statemachine import create_machine, MachineLogic, SyncInterpreter
    from xstate_statemachine.exceptions import XStateMachineError
    logging.disable(logging.CRITICAL)
    from harness import vthreads
    stage = "create"
    sched, uninstall = vthreads.install()
    try:
        try:
            m = create_machine(cfg, logic=MachineLogic())
            nm = tomodel.names(m)
            m.logic = tomodel.stub_logic(nm, [], "sync")
            stage = "start"
            it = SyncInterpreter(m)
            it.start()
            stage = "send"
            for ev in events:
                it.send(ev)
            it.stop()
            return ("accepted", None)
        except XStateMachineError as exc:
            return ("lib", stage, type(exc).__name__)
        except RecursionError:
            return ("lib", stage, "RecursionError")
        except Exception as exc:  # noqa
            return ("RAW", stage, type(exc).__name__, str(exc)[:160])
    finally:
        try:
            uninstall()
        except Exception:  # noqa
            pass


def corruption_case(args):
    cfg, events, limit, seed = args
    rng = random.Random(seed)
    pts = list(spell.paths(cfg))
    if limit and len(pts) > limit:
        pts = rng.sample(pts, limit)
    res = []
    for p in pts:
        orig = spell.get_path(cfg, p)
        for v in spell.WRONG:
            if spell.jtype(v) == spell.jtype(orig) and bool(v) == bool(orig) and v == orig:
                continue
            o = outcome(spell.set_path(cfg, p, v), events)
            res.append((p, spell.jtype(orig), v, o))
    return res


# ------------------------------------------------------------------ K-resolve: resolver.py vs Model/Resolve.v
def cs(l):
    return "[" + "; ".join('"%s"' % x.replace('"', '""') for x in l) + "]"


def ktree_coq(key, cfg):
    st = cfg.get("states") if isinstance(cfg, dict) else None
    kids = [ktree_coq(k, v) for k, v in st.items()] if isinstance(st, dict) else []
    return '(KT "%s" [%s])' % (key.replace('"', '""'), "; ".join(kids))


def spelling_coq(sp):
    if sp == ".":
        return "SDot"
    if sp.startswith("#"):
        return "(SAbs %s)" % cs(sp[1:].split("."))
    if sp.startswith("."):
        return "(SRel %s)" % cs(sp[1:].split("."))
    return "(SPlain %s)" % cs(sp.split("."))


def resolve_rows(args):
    cfg, seed = args
    rng = random.Random(seed)
    from xstate_statemachine.resolver import resolve_target_state
    from xstate_statemachine.exceptions import StateNotFoundError
    try:
        m = build(cfg)
    except Exception:  # noqa
        return None
    nodes = []

    def walk(n, path):
        nodes.append((n, path))
        for k, c in n.states.items():
            walk(c, path + [k])
    walk(m, [])
    keys = sorted({k for _, p in nodes for k in p}) or ["x"]
    rows = []
    for n, S in nodes:
        cands = set()
        for _, T in rng.sample(nodes, min(len(nodes), 6)):
            cands.update(spell.target_spellings(cfg, m.id, S, "#" + ".".join([m.id] + T)))
            cands.add(".".join(T[-2:]) if T else m.id)
            cands.add("." + ".".join(T[-1:]) if T else ".")
        for _ in range(4):
            k = rng.choice(keys)
            cands.update([k, "." + k, k + "." + rng.choice(keys), "#" + m.id + "." + k, "#" + k, "nosuch", ".nosuch", "#nosuch.x", "a..b", ".a.", m.id])
        for sp in sorted(c for c in cands if c):
            try:
                t = resolve_target_state(sp, n)
                want = t.id.split(".")[1:] if t.id != m.id else []
                if not (t.id == m.id or t.id.startswith(m.id + ".")):
                    continue
                rows.append((S, sp, want))
            except StateNotFoundError:
                rows.append((S, sp, None))
            except Exception:  # noqa
                continue
    return dict(tree=ktree_coq(m.id, cfg), rows=rows)


# ------------------------------------------------------------------ families
def machine_family(rng, n, gspell=None):
    out = []
    for i in range(n):
        am, events = AMm.random_machine(rng, max_nodes=rng.choice([5, 7, 9]),
                                        features=dict(parallel=(i % 2 == 0), history=(i % 3 == 0), final=(i % 4 == 0), after=(i % 5 == 0)))
        out.append(am.to_config(gspell=(i % 2 if gspell is None else gspell)))
    return out


def corpus_configs(limit=None):
    files = sorted(glob.glob(os.path.join(CORPUS, "*.json")))
    out = []
    for f in files[:limit]:
        try:
            out.append((os.path.basename(f), json.load(open(f))))
        except Exception:  # noqa
            pass
    return out


def same_scope_relative_machine():
    """The same relative / dotted target string used from two scopes where it denotes different states."""
    return {"id": "m", "initial": "a", "states": {
        "a": {"initial": "idle", "states": {"idle": {"on": {"GO": "#m.a.busy"}}, "busy": {"on": {"BACK": "#m.a.idle", "OUT": "#m.b.busy"}}}},
        "b": {"initial": "idle", "states": {"idle": {"on": {"GO": "#m.b.busy"}}, "busy": {"on": {"BACK": "#m.b.idle", "OUT": "#m.a.busy"}},
                                            "x": {"initial": "y", "states": {"y": {"on": {"UP": "#m.b.idle"}}}}}}}}


def run(rep, ctx):
    from concurrent.futures import ProcessPoolExecutor
    rng = random.Random(ctx["seed"] * 7919 + 18)
    big = ctx["tier"] == "thorough"
    cfgs = [same_scope_relative_machine()] * 6 + machine_family(rng, 260 if big else 60)
    jobs = [(c, rng.randrange(1 << 30), 4, True) for c in cfgs]
    corpus = corpus_configs(None if big else 30)
    jobs += [(c, rng.randrange(1 << 30), 2, False) for _, c in corpus]
    with ProcessPoolExecutor(max_workers=14) as ex:
        results = list(ex.map(spelling_case, jobs, chunksize=2))
    failures, disagreements = [], []
    pairs = []
    used = {}
    for (cfg, seed, n, tg), r in zip(jobs, results):
        for e in r["errors"]:
            if isinstance(e, dict):
                failures.append(dict(case=dict(kind="spelling", cfg=e["cfg"], original=cfg, used=e["used"]),
                                     what="a respelled config is rejected although the original is accepted: " + e["what"], signature=None))
        for u in r["used"]:
            used[u] = used.get(u, 0) + 1
        for t0, t2, cfg2, u in r["pairs"]:
            pairs.append((t0, t2, cfg, cfg2, u))
        for d in r["trace_diffs"]:
            failures.append(dict(case=dict(kind="spelling-trace", cfg=d["cfg"], original=cfg, used=d["used"], engine=d["engine"], events=d["events"]),
                                 what="respelled config (%s) behaves differently on the %s engine for events %s: step %s: %s vs %s" % (
                                     ",".join(d["used"]), d["engine"], d["events"], d["at"],
                                     d["original"][d["at"]] if d["at"] is not None and d["at"] < len(d["original"]) else "?",
                                     d["rewritten"][d["at"]] if d["at"] is not None and d["at"] < len(d["rewritten"]) else "?"), signature=None))
    # the structural comparison is decided in Coq
    shard = 40
    cj = []
    for j in range(0, len(pairs), shard):
        part = pairs[j:j + shard]
        text = "From XSM Require Import Model.Generic.\nEval vm_compute in bad_pairs %s.\n" % core.cl(
            "(%s, %s)" % (tomodel.to_coq(a), tomodel.to_coq(b)) for a, b, _, _, _ in part)
        cj.append(("c18_eq_%03d" % (j // shard), text))
    outs = core.coq_eval_many(cj, par=14)
    certified = 0
    for (jn, _), j in zip(cj, range(0, len(pairs), shard)):
        rc, out, _ = outs[jn]
        if rc != 0:
            disagreements.append(dict(component="tree-equality", case=None, impl=None, model="coqc failed: " + out[-400:]))
            continue
        body = re.sub(r"\s+", "", out[out.find("="):])
        m = re.match(r"=\[([0-9;]*)\]", body)
        bad = [int(x) for x in re.findall(r"\d+", m.group(1))] if m else [0]
        certified += len(pairs[j:j + shard]) - len(bad)
        for b in bad:
            t0, t2, cfg, cfg2, u = pairs[j + b]
            d = tomodel.diff_path(t0, t2)
            failures.append(dict(case=dict(kind="spelling", cfg=cfg2, original=cfg, used=u),
                                 what="respelled config (%s) builds a different machine: at %s: %s vs %s" % (",".join(u), d[0] if d else "?", d[1] if d else "?", d[2] if d else "?"),
                                 signature=None))
    # the resolver itself against Model/Resolve.v (the model the spelling theorems are about)
    rjobs = [(c, rng.randrange(1 << 30)) for c in cfgs[5:]]
    with ProcessPoolExecutor(max_workers=14) as ex:
        rres = [r for r in ex.map(resolve_rows, rjobs, chunksize=4)]
    kj = []
    n_rows = 0
    for i, r in enumerate(rres):
        if not r or not r["rows"]:
            continue
        n_rows += len(r["rows"])
        rows = core.cl("(%s, %s, %s)" % (cs(S), spelling_coq(sp), "None" if w is None else "(Some %s)" % cs(w)) for S, sp, w in r["rows"])
        kj.append(("c18_res_%03d" % i, "From XSM Require Import Model.Resolve.\nEval vm_compute in check_resolve %s %s.\n" % (r["tree"], rows)))
    kouts = core.coq_eval_many(kj, par=14)
    k_bad = 0
    for jn, _ in kj:
        rc, out, _ = kouts[jn]
        i = int(jn.split("_")[-1])
        body = re.sub(r"\s+", "", out[out.find("="):]) if rc == 0 else ""
        m_ = re.match(r"=\[([0-9;]*)\]", body)
        if rc != 0 or not m_:
            disagreements.append(dict(component="K-resolve", case=None, impl=None, model="coqc failed: " + out[-300:]))
            continue
        for b in re.findall(r"\d+", m_.group(1)):
            k_bad += 1
            S, sp, w = rres[i]["rows"][int(b)]
            disagreements.append(dict(component="K-resolve", case=dict(kind="resolve", cfg=rjobs[i][0], source=S, spelling=sp, library=w),
                                      impl=w, model="Model/Resolve.v resolves it differently"))
    # malformed input
    cor_cfgs = [same_scope_relative_machine()] + machine_family(rng, 30 if big else 8) + [c for _, c in corpus[:(20 if big else 4)]]
    cjobs = [(c, ["GO", "E1", "E2", "NOPE"], None if big else 60, rng.randrange(1 << 30)) for c in cor_cfgs]
    with ProcessPoolExecutor(max_workers=14) as ex:
        cres = list(ex.map(corruption_case, cjobs, chunksize=1))
    n_cor = 0
    classes = {}
    for (cfg, _, _, _), res in zip(cjobs, cres):
        by_point = {}
        for p, ot, v, o in res:
            n_cor += 1
            classes[o[0]] = classes.get(o[0], 0) + 1
            by_point.setdefault(p, []).append((v, o))
            if o[0] == "RAW":
                failures.append(dict(case=dict(kind="corruption", cfg=cfg, path=list(p), value=v),
                                     what="replacing %s (%s) by %r surfaces as a raw %s at %s: %s" % ("/".join(map(str, p)) or "<root>", ot, v, o[2], o[1], o[3]),
                                     signature=None))
        # rejection of a WRONG JSON type must not depend on truthiness: if every truthy value of a type that is not the
        # type the config has at this point is refused by the shape validation (InvalidConfigError at creation), the
        # falsy value of that type must not be accepted
        for p, outs_ in by_point.items():
            ot = spell.jtype(spell.get_path(cfg, p))
            for jt in ("number", "string", "list", "object", "bool"):
                if jt == ot:
                    continue
                # positions that accept one item OR a list of items (or a map): an empty list / map there is a VALID value
                # ("nothing declared"), and the truthy samples of that type are refused for their elements, not their type
                last = p[-1] if p else None
                poly = last in ("invoke", "entry", "exit", "actions", "always", "onDone", "onError", "tags", "guards", "children",
                                "target", "on", "after", "states", "meta", "params", "input", "context") \
                    or (len(p) >= 2 and p[-2] in ("on", "after"))
                if jt in ("list", "object") and poly:
                    continue
                truthy = [o for v, o in outs_ if spell.jtype(v) == jt and v]
                falsy = [(v, o) for v, o in outs_ if spell.jtype(v) == jt and not v]
                if truthy and all(o[:3] == ("lib", "create", "InvalidConfigError") for o in truthy):
                    for v, o in falsy:
                        if o[0] == "accepted":
                            failures.append(dict(case=dict(kind="corruption", cfg=cfg, path=list(p), value=v),
                                                 what="at %s (a %s in the valid config) a %s is rejected with InvalidConfigError when truthy but %r is "
                                                      "accepted silently" % ("/".join(map(str, p)), ot, jt, v), signature=None))
    rep.coverage.update(evaluations=len(pairs) + n_cor, distinct_nontrivial=len({core.case_hash(p[3]) for p in pairs}),
                        rule="spelling: random machines (hierarchy, parallel, history, final, after, invoke, guards, always, onDone) and Stately "
                             "exports, each respelled several times by a random combination of the documented rewrites; the built machines are "
                             "compared as labelled trees IN COQ (resolved targets, full guards, actions with params, delays, invokes, tags, meta, "
                             "context) and run on both engines on random event sequences (one interpreter taking several transitions). malformed: "
                             "every subtree of a config replaced by 11 values of every JSON type; no raw exception may escape create / start / "
                             "send; rejection must not depend on truthiness",
                        samples=[dict(rewrites_used=used)], traces_validated_against_impl=len(pairs) * 4,
                        components={"tree-equality (Coq)": dict(pairs=len(pairs), certified_equal=certified),
                                    "K-resolve": dict(machines=len(kj), rows=n_rows, disagreements=k_bad),
                                    "corruptions": dict(points=n_cor, outcome_classes=classes), "rewrites": used})
    core.decide(rep, ctx["proof"], disagreements, failures, None)
    rep.assumptions += ["harness/tomodel.py extracts the tree from the built machine (trusted; validated by the trace comparison)",
                        "'accepted silently' is only judged through the truthiness rule and raw exceptions; whether an accepted odd config "
                        "means what its author intended is outside any check"]


def replay(payload):
    c = payload.get("case") or {}
    logging.disable(logging.CRITICAL)
    if c.get("kind") == "corruption":
        cfg = spell.set_path(c["cfg"], tuple(c["path"]), c["value"])
        o = outcome(cfg, ["GO", "E1", "E2", "NOPE"])
        print("outcome:", o)
        return 1 if o[0] == "RAW" or o[0] == "accepted" else 0
    if c.get("kind") in ("spelling", "spelling-trace"):
        try:
            a, b = tomodel.deep(build(c["original"])), tomodel.deep(build(c["cfg"]))
        except Exception as exc:  # noqa
            print("rejected:", type(exc).__name__, exc)
            return 1
        d = tomodel.diff_path(a, b)
        print("tree difference:", d)
        bad = bool(d)
        if c.get("events"):
            fn = tomodel.trace_sync if c.get("engine") == "sync" else tomodel.trace_async
            ta, tb = fn(build(c["original"]), c["events"]), fn(build(c["cfg"]), c["events"])
            for x, y in zip(ta[0], tb[0]):
                print(x, "|", y, "" if x == y else "   <-- differs")
            bad = bad or ta != tb
        return 1 if bad else 0
    print("no concrete case:", payload.get("broken"))
    return 1
