"""C10 - completion: onDone exactly once per completion; a top-level final state ends the machine."""
from __future__ import annotations

import itertools
import random

from harness import core
from harness.am import AM, Node, Trans
from harness.props import common

LEVEL = "proof"


def declared_done(am, active, s):
    n = am.nodes[s]
    if n.kind == "final":
        return True
    if n.kind == "compound":
        kids = [c for c in n.children if c in active]
        return len(kids) >= 1 and declared_done(am, active, kids[0])
    if n.kind == "parallel":
        regs = [c for c in n.children if not am.nodes[c].kind.startswith("hist")]
        return all(c in active and declared_done(am, active, c) for c in regs)
    return False


def monitor(am, engine, cx, events, snaps):
    out = []
    if any("special" in s for s in snaps):
        return out
    log = snaps[-1]["log"]
    ids = {("done.state." + am.sid(i)): i for i in range(len(am.nodes))}
    # replay entries/exits to know the configuration at the moment each final state is entered
    active = set()
    expected = {}
    cut = any(o[0] in ("cut", "err") for o in log)
    completed_at = None
    for idx, o in enumerate(log):
        if o[0] == "enter":
            active.add(o[1])
            if am.nodes[o[1]].kind == "final":
                f = o[1]
                fired = False
                for a in am.anc_self(f)[1:]:
                    if am.nodes[a].ondone is not None and declared_done(am, active, a):
                        expected[a] = expected.get(a, 0) + 1
                        fired = True
                        break
                if not fired and am.nodes[f].parent == 0 and completed_at is None:
                    completed_at = idx
        elif o[0] == "leave":
            active.discard(o[1])
    observed = {}
    for o in log:
        if o[0] == "begin" and o[1] in ids:
            observed[ids[o[1]]] = observed.get(ids[o[1]], 0) + 1
    final_status = snaps[-1]["status"]
    for a in set(expected) | set(observed):
        e, ob = expected.get(a, 0), observed.get(a, 0)
        if ob > e:
            out.append(("done.state event for state %d processed %d times but the state completed %d times" % (a, ob, e), None))
        elif ob < e and not cut and final_status == 1 and completed_at is None:
            out.append(("state %d completed %d times but its done event was processed %d times" % (a, e, ob), None))
    dones = [o for o in log if o[0] == "done"]
    if len(dones) > 1:
        out.append(("on_done hook ran %d times" % len(dones), None))
    if completed_at is not None and not cut:
        if final_status != 2 and not dones:
            out.append(("a final child of the root was entered but the status is %s" % final_status, None))
    if dones:
        # output precedence: machine-level output wins over the final state's
        f = next((o[1] for o in log[:log.index(dones[0]) + 1][::-1] if o[0] == "enter" and am.nodes[o[1]].kind == "final"
                  and am.nodes[o[1]].parent == 0), None)
        finals = [n for n in am.nodes if n.kind == "final" and n.parent == 0]
        exp = [am.output] if am.output is not None else [n.output for n in finals]
        if dones[0][1] not in exp:
            out.append(("machine output %r, expected %r (machine-level output takes precedence)" % (dones[0][1], exp), None))
    # sent events are ignored after completion
    for k in range(1, len(snaps)):
        if snaps[k - 1]["status"] == 2:
            new = [o for o in snaps[k]["log"][len(snaps[k - 1]["log"]):] if o[0] != "can"]
            if new and not snaps[k - 1]["queue"]:
                out.append(("event %r sent after completion was not ignored: %s" % (events[k - 1][0], new[:4]), None))
    return out[:1]


def done_machine(rng):
    """root compound: w (work: parallel or compound with final children), fin (final, top-level), idle."""
    tid = itertools.count(1)
    mark = itertools.count(1)
    nodes = [Node(0, "m", None, "compound")]

    def add(parent, key, kind):
        n = Node(len(nodes), key, parent, kind)
        nodes.append(n)
        nodes[parent].children.append(n.idx)
        return n.idx
    events = []
    w_par = rng.random() < 0.7
    w = add(0, "w", "parallel" if w_par else "compound")
    regions = []
    if w_par:
        keys = rng.sample(["r", "rx", "rxy", "s", "sr"], rng.randint(2, 3))
        for k in keys:
            r = add(w, k, "compound")
            regions.append(r)
        if rng.random() < 0.3:
            add(w, "hist", "hist_deep" if rng.random() < 0.5 else "hist_shallow")
    else:
        regions = [w]
    for ri, r in enumerate(regions):
        a = add(r, "a", "atomic")
        f = add(r, "f", "final")
        nodes[r].initial = a if rng.random() < 0.85 else f
        if rng.random() < 0.5:
            nodes[f].output = rng.randint(1, 5)
        e_fin, e_back = "F%d" % ri, "B%d" % ri
        events += [e_fin, e_back]
        nodes[a].on.append((e_fin, [Trans(next(tid), a, e_fin, f, actions=[("mark", next(mark))])]))
        # un-complete: leave the final state again (handled on the region, final states have no transitions of their own here)
        nodes[r].on.append((e_back, [Trans(next(tid), r, e_back, a, actions=[("mark", next(mark))])]))
        if rng.random() < 0.3 and r != w:
            nodes[r].ondone = Trans(next(tid), r, "done.state." + "x", None, actions=[("mark", next(mark))])
        if rng.random() < 0.25:
            nested = add(r, "n", "compound")
            nf = add(nested, "f", "final")
            nodes[nested].initial = nf
            e_n = "N%d" % ri
            events.append(e_n)
            nodes[a].on.append((e_n, [Trans(next(tid), a, e_n, nested)]))
        elif rng.random() < 0.25:
            # a nested parallel state inside the region: only one of its sub-regions can complete
            q = add(r, "q", "parallel")
            for sk in ("s", "sx"):
                sr = add(q, sk, "compound")
                sa = add(sr, "a", "atomic")
                sf = add(sr, "f", "final")
                nodes[sr].initial = sa
                e_s = "S%d%s" % (ri, sk)
                events.append(e_s)
                nodes[sa].on.append((e_s, [Trans(next(tid), sa, e_s, sf)]))
            e_q = "Q%d" % ri
            events.append(e_q)
            nodes[a].on.append((e_q, [Trans(next(tid), a, e_q, q)]))
    fin = add(0, "fin", "final")
    idle = add(0, "idle", "atomic")
    nodes[0].initial = w
    if rng.random() < 0.6:
        nodes[fin].output = rng.choice([0, 1, 7])
    am = AM(nodes, max_iter=8)
    if rng.random() < 0.5:
        am.output = rng.choice([0, 0, 3, 9])
    tgt = rng.choice([fin, fin, idle, w])
    nodes[w].ondone = Trans(next(tid), w, "done.state.x", tgt, actions=[("mark", next(mark))],
                            reenter=(tgt == w and rng.random() < 0.5))
    nodes[idle].on.append(("GO", [Trans(next(tid), idle, "GO", w)]))
    nodes[idle].on.append(("END", [Trans(next(tid), idle, "END", fin)]))
    nodes[0].on.append(("X", [Trans(next(tid), 0, "X", None, actions=[("mark", next(mark))])]))
    events += ["GO", "END", "X"]
    # fix up onDone event names now that ids are known
    for n in nodes:
        if n.ondone is not None:
            n.ondone.event = "done.state." + am.sid(n.idx)
    return am, events


def family(rng, n):
    cases = []
    for i in range(n):
        am, events = done_machine(rng)
        fins = [e for e in events if e[0] == "F"]
        runs = []
        for perm in rng.sample(list(itertools.permutations(fins)), min(3, len(list(itertools.permutations(fins))))):
            seq = list(perm)
            # un-complete and re-complete one region, then poke after completion
            if rng.random() < 0.6 and fins:
                k = rng.randrange(len(seq))
                seq = seq[:k + 1] + ["B" + seq[k][1:], seq[k]] + seq[k + 1:]
            extra = [e for e in events if e[0] in "QS"]
            if extra and rng.random() < 0.7:
                k = rng.randrange(len(seq) + 1)
                seq = seq[:k] + rng.sample(extra, min(2, len(extra))) + seq[k:]
            seq += rng.sample(events, 2) + ["X"]
            runs.append(({}, [(e, "plain", j + 1) for j, e in enumerate(seq)]))
        cases.append((am, ("sync", "async")[i % 2], runs, dict(probe_can=(i % 3 == 0))))
    return cases


# ---------------------------------------------------------------------------------------------------------------------
# CUSTOM IDS (implementation monitor, both engines): a compound / parallel state that declares a custom `id` next to `onDone`.
# The abstract machines of the correspondence name states by their dotted paths only; here the library is driven directly and the
# property is counted: onDone taken exactly once per completion, never while a region is not final.  (Fifth-round seeded change
# C10-D named the completion event after the custom id in the parser and in the asyncio engine's copy of _check_and_fire_on_done,
# but not in the sync engine's: onDone was never taken there.)
def custom_id_cases(rng, n):
    return [dict(engine=("sync", "async")[i % 2], parallel=rng.random() < 0.5, custom=rng.choice(["box", "the.box", "m.other", None]),
                 nested=rng.random() < 0.4, order=rng.choice([("A", "B"), ("B", "A"), ("A", "A", "B"), ("B", "X", "A")]),
                 recomplete=rng.random() < 0.5) for i in range(n)]


def run_custom_id(case):
    import asyncio
    from xstate_statemachine import create_machine, Interpreter, SyncInterpreter, MachineLogic
    log = []

    def mark(tag):
        def act(interp, ctx, ev, ad):
            log.append(tag)
        return act
    if case["parallel"]:
        box = {"type": "parallel", "states": {
            "r1": {"initial": "w", "states": {"w": {"on": {"A": "f"}}, "f": {"type": "final"}}},
            "r2": {"initial": "w", "states": {"w": {"on": {"B": "f"}}, "f": {"type": "final"}}}}}
    else:
        box = {"initial": "w", "states": {"w": {"on": {"A": "w2"}}, "w2": {"on": {"B": "f"}}, "f": {"type": "final"}}}
    if case["custom"]:
        box["id"] = case["custom"]
    box["onDone"] = {"target": "after", "actions": ["onDoneTaken"]}
    after = {"on": {"AGAIN": "box"}}
    if case["nested"]:
        cfg = {"id": "m", "initial": "outer", "states": {"outer": {"initial": "box", "states": {"box": box, "after": after}}}}
    else:
        cfg = {"id": "m", "initial": "box", "states": {"box": box, "after": after}}
    logic = MachineLogic(actions={"onDoneTaken": mark("onDone")})
    events = list(case["order"]) + (["AGAIN"] + [e for e in case["order"]] if case["recomplete"] else [])
    res = dict(case=case, events=events)
    trace = []
    try:
        if case["engine"] == "sync":
            it = SyncInterpreter(create_machine(cfg, logic=logic))
            it.start()
            for e in events:
                it.send(e)
                trace.append((e, len(log), sorted(it.current_state_ids)))
            it.stop()
        else:
            async def main():
                it = Interpreter(create_machine(cfg, logic=logic))
                await it.start()
                for e in events:
                    await it.send(e)
                    for _ in range(30):
                        await asyncio.sleep(0)
                    trace.append((e, len(log), sorted(it.current_state_ids)))
                await it.stop()
            asyncio.run(asyncio.wait_for(main(), 20))
    except Exception as exc:
        res["harness_exc"] = repr(exc)
    res["trace"] = trace
    return res


def custom_id_monitor(res):
    if "harness_exc" in res:
        return []
    case = res["case"]
    # the declarative count: the box completes when A and B have both been seen since it was (re-)entered (compound: A then B)
    seen, want, inside = set(), 0, True
    out = []
    for (e, n, cfg) in res["trace"]:
        if e == "AGAIN" and not inside:
            inside, seen = True, set()
        elif inside and e in ("A", "B"):
            if case["parallel"] or e == "A" or "A" in seen:
                seen.add(e)
            if seen == {"A", "B"}:
                want += 1
                inside = False
        if n != want:
            out.append(("state `box`%s (%s, %s engine): after the events %s its onDone transition has been taken %d time(s), expected %d "
                        "(configuration %s)" % (" with custom id %r" % case["custom"] if case["custom"] else "", "parallel" if case["parallel"] else "compound",
                                                case["engine"], [t[0] for t in res["trace"][:res["trace"].index((e, n, cfg)) + 1]], n, want, cfg), None))
            return out
    return out


def custom_id_component(cases):
    from concurrent.futures import ProcessPoolExecutor
    with ProcessPoolExecutor(max_workers=12) as ex:
        results = list(ex.map(run_custom_id, cases, chunksize=4))
    fails, stats = [], dict(cases=len(cases), judged=0, with_custom_id=0)
    for case, res in zip(cases, results):
        if "harness_exc" in res:
            continue
        stats["judged"] += 1
        stats["with_custom_id"] += bool(case["custom"])
        for what, sig in custom_id_monitor(res):
            fails.append(dict(case=dict(custom_id=True, **case), what=what, signature=sig))
    return fails, stats


def run(rep, ctx):
    rng = random.Random(ctx["seed"] * 7919 + 10)
    big = ctx["tier"] == "thorough"
    dis_all, fail_all = [], []
    fams = [("done", family(rng, 1500 if big else 260),
             "completion machines: a parallel (2-3 regions with prefix-sharing names, optional history child) or compound work state whose "
             "regions have final children, nested completion, onDone on regions and on the work state (to a top-level final state, "
             "idle or itself), falsy/non-falsy machine and final outputs; runs complete the regions in several orders, "
             "un-complete and re-complete one, then send events after completion"),
            ("random", common.random_family(rng, 800 if big else 160, features=dict(final=True, ondone=True)),
             "seeded random machines with final states and onDone")]
    for name, cases, rule in fams:
        dis, fails, stats = common.run_macro_property(rep, ctx, "c10_" + name, cases, monitor, rule)
        dis_all += dis
        fail_all += fails

    def search(extra):
        _, fails, _ = common.run_macro_property(rep, ctx, "c10_search", family(random.Random(ctx["seed"] + 101), 400), monitor,
                                                "search: 400 more completion machines")
        return fails
    cfails, cstats = custom_id_component(custom_id_cases(rng, 160 if ctx["tier"] == "thorough" else 48))
    fail_all += cfails
    rep.coverage.setdefault("components", {})["monitor: onDone on states with a custom id, counted per completion (implementation only, both engines)"] = cstats
    core.decide(rep, ctx["proof"], dis_all, fail_all, search)


def replay(payload):
    case = payload.get("case") or {}
    if case.get("custom_id"):
        res = run_custom_id({k: (tuple(v) if k == "order" else v) for k, v in case.items() if k != "custom_id"})
        print(res)
        bad = custom_id_monitor(res)
        for b in bad:
            print("MONITOR:", b[0])
        return 1 if bad else 0
    return common.replay_macro(payload, monitor)
