"""C14 - the interpreter lifecycle is a strict state machine; stop() releases everything."""
from __future__ import annotations

import itertools
import random
import re

from harness import core, impl, kmacro
from harness.am import ev_coq
from harness.props import common, c08, c09

LEVEL = "proof"

# between two observation points several edges of U->R->(D|E)->S / R->S may be taken (start() can run to completion)
ALLOWED = {(0, 0), (0, 1), (0, 2), (0, 3), (0, 4), (1, 1), (1, 2), (1, 3), (1, 4), (2, 2), (2, 4), (3, 3), (3, 4), (4, 4)}


def lop_coq(op):
    if op[0] in ("start", "start2"):
        return "LStart"
    if op[0] == "stop":
        return "LStop"
    if op[0] == "at":
        return "(LOp %d %s)" % (op[1], core.cl(ev_coq(e) for e in op[2]))
    if op[0] == "burst":
        return "(LOp 0 %s)" % core.cl(ev_coq(e) for e in op[1])
    return "(LOp 0 %s)" % core.cl([ev_coq(op)])


def life_ops(rng, events, timed):
    ops = []
    t = 0
    n = rng.randint(3, 7)
    for k in range(1, n + 1):
        r = rng.random()
        if r < 0.28:
            ops.append(("start",))
        elif r < 0.5:
            ops.append(("stop",))
        else:
            ev = (rng.choice(events), "plain", 100 + k)
            if timed:
                t += rng.choice([0, 100, 200, 300, 500, 900]) + k
                ops.append(("at", t, [ev] if rng.random() < 0.7 else []))
            else:
                ops.append(ev)
    if timed:
        # let time pass at the end: nothing may be delivered after stop()
        ops.append(("at", t + 2000 + n, []))
    if not any(o[0] == "start" for o in ops):
        ops.insert(rng.randrange(len(ops)), ("start",))
    return ops


def family(rng, n):
    cases = []
    for i in range(n):
        kind = i % 3
        if kind == 0:
            am = c08.timer_machine(rng); events = ["TOA", "TOB", "TOC", "TOW", "RE", "SET"]; timed = True
        elif kind == 1:
            am = c09.service_machine(rng); events = ["IDLE", "WORK", "W2", "RE"]; timed = True
        else:
            from harness import am as AMm
            am, events = AMm.random_machine(rng, max_nodes=7, features=dict(final=True))
            timed = False
        engine = ("async", "sync")[i % 2]
        runs = [({}, life_ops(rng, events, timed)) for _ in range(3)]
        if engine == "async" and timed and rng.random() < 0.6:
            # an initial entry that really awaits, and two concurrent start() calls
            am.nodes[0].entry = [("slow", 990, rng.choice([50, 150]))]
            runs = [(cx, [("start2",) if o[0] == "start" and rng.random() < 0.7 else o for o in ops]) for cx, ops in runs]
        cases.append((am, engine, runs, None))
    return cases


def impl_case(args):
    am, engine, runs, opts = args
    out = []
    for cx, ops in runs:
        fn = impl.run_sync if engine == "sync" else impl.run_async
        try:
            out.append(fn(am, ops, seed_ctx=kmacro.ctx_seed(cx)))
        except BaseException as exc:
            out.append([[impl.TS("harness-error"), impl.TS(repr(exc)[:80])]])
    return out


def monitor(am, engine, ops, snaps):
    out = []
    if any("special" in s for s in snaps):
        return out
    prev = 0
    stopped_log_len = None
    for op, sn in zip(ops, snaps):
        st = sn["status"]
        if (prev, st) not in ALLOWED:
            out.append(("status moved %d -> %d on %s (0 uninitialized, 1 running, 2 done, 3 error, 4 stopped)" % (prev, st, op[0]), None))
        if op[0] == "stop":
            if st not in (0, 4):
                out.append(("stop() left the status at %d" % st, None))
            if sn.get("armed"):
                out.append(("after stop() timers/services are still armed for states %s" % sn["armed"], None))
        if stopped_log_len is not None and st == 4:
            new = [o for o in sn["log"][stopped_log_len:] if o[0] not in ("err",)]
            if new:
                out.append(("something was delivered or executed after stop(): %s" % new[:4], None))
        if st == 4:
            stopped_log_len = len(sn["log"])
        if prev in (2, 3, 4) and op[0] not in ("start", "stop") and st == prev:
            pass
        prev = st
    return out[:1]


# ---- an actor that is DONE (top-level final state) but still owns children / pending delayed sends: stop() of its parent
#      must still reach it and everything below it (third-round seeded change C14-C skipped children that are not `running`)
def finished_child_family(rng, n):
    from harness import actors
    cases = []
    for i in range(n):
        steps = [("do", 0, 1, [("spawn", rng.choice(["builtin", "plain"]), "w", rng.choice([None, "worker"]), rng.choice([None, "sysw"]))])]
        ops = [("spawn", rng.choice(["builtin", "plain"]), "kid", rng.choice([None, "k"]), None)]
        if rng.random() < 0.6:
            ops.append(("sendParent", 5, rng.choice([300, 700]), rng.choice([None, "late"])))
        if rng.random() < 0.5:
            ops.append(("spawn", "plain", "kid2", None, rng.choice([None, "sysk"])))
        fin = rng.random() < 0.8
        steps.append(("do", 1, 2, ops + ([("finish",)] if fin else [])))
        steps.append(("adv", 40))
        if rng.random() < 0.7:
            # the grandchild schedules something that is due after the stop
            steps.append(("do", 2, 3, [("sendParent", 7, rng.choice([200, 500]), None)] +
                          ([("spawn", "plain", "w1", None, None)] if rng.random() < 0.4 else [])))
            steps.append(("adv", 80))
        if not fin and rng.random() < 0.5:
            steps.append(("do", 1, 4, [("finish",)]))
            steps.append(("adv", 120))
        if rng.random() < 0.4:
            # the parent stops the (finished) child with the stopChild action instead of being stopped itself
            # (fifth-round seeded change C15-D: the async stopChild skipped the stop() of a child that was not `running`)
            steps.append(("do", 0, 9, [("stopChild", steps[0][3][0][3] or "w")]))
        else:
            steps.append(("stop", rng.choice([0, 0, 0, 1])))
        steps.append(("adv", 1500))
        steps.append(("adv", 2500))
        cases.append((steps, ("async", "sync")[i % 2], None))
    return cases


def finished_monitor(steps, res):
    out = []
    tr = res.get("trace") or []
    if len(tr) != len(steps) or any(s and s[0][1] in ("TIMEOUT", "harness-exc") for s in res.get("snaps", []) if s):
        return out
    k = next(i for i, st in enumerate(steps) if st[0] == "stop" or (st[0] == "do" and st[2] == 9))
    who = steps[k][1] if steps[k][0] == "stop" else 1
    before = tr[k - 1] if k else tr[k]
    n = len(tr[k]["status"])
    par = tr[k]["parent"]

    def below(j):
        while j is not None:
            if j == who:
                return True
            j = par[j] if j < len(par) else None
        return False
    sub = [j for j in range(n) if below(j)]
    for i in range(k, len(tr)):
        for j in sub:
            if j < len(tr[i]["status"]) and tr[i]["status"][j] not in ("stopped", "uninitialized"):
                out.append(("after stop() of actor %d returned, its descendant actor %d has status %r (step %d): stop() must stop every "
                            "descendant actor, also below a child that had already finished" % (who, j, tr[i]["status"][j], i), None))
                return out[:1]
            if j < len(tr[i]["sends"]) and tr[i]["sends"][j]:
                out.append(("after stop() of actor %d, actor %d below it still has %d delayed send(s) registered" % (who, j, tr[i]["sends"][j]), None))
                return out[:1]
        if i > k and tr[i]["nin"][:n] != tr[k]["nin"][:n]:
            out.append(("an actor received something after stop() of actor %d had returned: inbox sizes %s -> %s"
                        % (who, tr[k]["nin"], tr[i]["nin"]), None))
            return out[:1]
    return out


def finished_component(cases):
    from concurrent.futures import ProcessPoolExecutor
    from harness import actors
    with ProcessPoolExecutor(max_workers=14) as ex:
        results = list(ex.map(actors.run_impl_case, cases, chunksize=4))
    fails, stats = [], dict(cases=len(cases), finished=0, judged=0)
    for (steps, engine, _), res in zip(cases, results):
        tr = res.get("trace") or []
        if len(tr) == len(steps):
            stats["judged"] += 1
            k = next(i for i, st in enumerate(steps) if st[0] == "stop" or (st[0] == "do" and st[2] == 9))
            if "done" in tr[k - 1]["status"]:
                stats["finished"] += 1
        for what, sig in finished_monitor(steps, res):
            fails.append(dict(case=dict(steps=[list(map(lambda x: list(x) if isinstance(x, (list, tuple)) else x, st)) for st in steps],
                                        engine=engine, finished_child=True), what=what, signature=sig))
    return fails, stats


# ---------------------------------------------------------------------------------------------------------------------
# FAILED START (implementation monitor, both engines): the initial entry creates child actors (and grandchildren) and THEN
# hits a fatal configuration error - an action or a service without implementation - so start() raises a library error.  The
# caller reacts the usual way and calls stop().  The property: stop() may be called in any status and, when it returns, every
# descendant actor the interpreter created is stopped and none is registered any more.  (Fifth-round seeded change C14-D made the
# sync start() mark the interpreter "stopped" on failure, after which stop() returned at once and the children lived on.)
def failed_start_cases(rng, n):
    cases = []
    for i in range(n):
        cases.append(dict(engine=("sync", "async")[i % 2], where=rng.choice(["same-entry", "inner-entry", "missing-service", "none"]),
                          blocking=rng.random() < 0.5, grandchild=rng.random() < 0.5, system_id=rng.random() < 0.5,
                          second=rng.random() < 0.4, call_stop_twice=rng.random() < 0.3))
    return cases


def run_failed_start(case):
    import asyncio
    import time
    from xstate_statemachine import create_machine, Interpreter, SyncInterpreter, MachineLogic
    from xstate_statemachine.exceptions import XStateMachineError
    made = []

    def track(name):
        def act(interp, ctx, ev, ad):
            if interp not in made:
                made.append(interp)
        return act
    sync = case["engine"] == "sync"
    spawn = ("spawn_blocking_" if (case["blocking"] and sync) else "spawn_")
    leaf_cfg = {"id": "leaf", "initial": "on", "states": {"on": {"entry": ["seen"], "after": {"60000": "on2"}}, "on2": {}}}
    leaf = create_machine(leaf_cfg, logic=MachineLogic(actions={"seen": track("leaf")}))
    kid_entry = ["seen"] + ([{"type": spawn + "leaf", "params": ({"systemId": "the-leaf"} if case["system_id"] else {})}] if case["grandchild"] else [])
    kid_cfg = {"id": "kid", "initial": "on", "states": {"on": {"entry": kid_entry, "after": {"60000": "on2"}}, "on2": {}}}
    kid = create_machine(kid_cfg, logic=MachineLogic(actions={"seen": track("kid")}, services={"leaf": leaf}))
    spawn_kid = {"type": spawn + "kid", "params": ({"systemId": "the-kid"} if case["system_id"] else {})}
    entry = [spawn_kid] + ([{"type": spawn + "kid", "params": {"id": "second"}}] if case["second"] else [])
    a = {"entry": list(entry), "initial": "x", "states": {"x": {}}}
    if case["where"] == "same-entry":
        a["entry"].append("thisActionHasNoImplementation")
    elif case["where"] == "inner-entry":
        a["states"]["x"]["entry"] = ["thisActionHasNoImplementation"]
    elif case["where"] == "missing-service":
        a["states"]["x"]["invoke"] = {"src": "thisServiceHasNoImplementation"}
    cfg = {"id": "m", "initial": "a", "states": {"a": a}}
    parent = create_machine(cfg, logic=MachineLogic(services={"kid": kid}))
    res = dict(case=case)

    def census(it):
        return dict(status=it.status, made=[(x.machine.id, x.status) for x in made], actors=len(it._actors),
                    registry=sorted(it._system_registry().keys()))
    try:
        if sync:
            it = SyncInterpreter(parent)
            try:
                it.start()
                res["start"] = "ok"
            except XStateMachineError as exc:
                res["start"] = type(exc).__name__
            t0 = time.time()
            want = 1 + (1 if case["second"] else 0)
            # non-blocking spawns start their child on a runner thread: wait until every spawned child runs (or give up: inconclusive)
            while time.time() - t0 < 3 and sum(1 for x in made if x.machine.id == "kid" and x.status == "running") < want:
                time.sleep(0.005)
            if case["grandchild"]:
                while time.time() - t0 < 3 and sum(1 for x in made if x.machine.id == "leaf" and x.status == "running") < want:
                    time.sleep(0.005)
            res["before"] = census(it)
            started = sum(1 for x in made if x.machine.id == "kid" and x.status == "running")
            if started < want or (case["grandchild"] and sum(1 for x in made if x.machine.id == "leaf" and x.status == "running") < want):
                # a runner thread has not started its child yet (loaded host): stopping now would race with that thread - not judged
                res["inconclusive"] = "children not running after 3 s"
            it.stop()
            if case["call_stop_twice"]:
                it.stop()
            time.sleep(0.05)
            res["after"] = census(it)
        else:
            async def main():
                it = Interpreter(parent)
                try:
                    await it.start()
                    res["start"] = "ok"
                except XStateMachineError as exc:
                    res["start"] = type(exc).__name__
                for _ in range(20):
                    await asyncio.sleep(0)
                res["before"] = census(it)
                await it.stop()
                if case["call_stop_twice"]:
                    await it.stop()
                for _ in range(20):
                    await asyncio.sleep(0)
                res["after"] = census(it)
            asyncio.run(asyncio.wait_for(main(), 20))
    except Exception as exc:
        res["harness_exc"] = repr(exc)
    return res


def failed_start_monitor(res):
    if "harness_exc" in res or "after" not in res or "inconclusive" in res:
        return []
    case, after = res["case"], res["after"]
    if case["where"] != "none" and res.get("start") == "ok":
        return []                                           # the fault did not fire: nothing to judge
    alive = [(mid, st) for mid, st in after["made"] if st not in ("stopped", "uninitialized")]
    how = ("after start() had failed with %s" % res["start"]) if res.get("start") != "ok" else "after a successful start()"
    if alive:
        return [("stop() returned (%s, interpreter status before stop(): %r, after: %r) and descendant actor(s) are still alive: %s - "
                 "stop() may be called in any status and must stop every actor the interpreter created"
                 % (how, res["before"]["status"], after["status"], alive), None)]
    if after["actors"] or after["registry"]:
        return [("stop() returned (%s) and %d child actor(s) / systemIds %s are still registered" % (how, after["actors"], after["registry"]), None)]
    return []


def failed_start_component(cases):
    from concurrent.futures import ProcessPoolExecutor
    with ProcessPoolExecutor(max_workers=12) as ex:
        results = list(ex.map(run_failed_start, cases, chunksize=2))
    fails, stats = [], dict(cases=len(cases), judged=0, start_failed=0, children_alive_before_stop=0, inconclusive=0)
    for case, res in zip(cases, results):
        if "harness_exc" in res or "after" not in res or "inconclusive" in res:
            stats["inconclusive"] += 1
            continue
        stats["judged"] += 1
        stats["start_failed"] += res.get("start") != "ok"
        stats["children_alive_before_stop"] += any(st == "running" for _, st in res["before"]["made"])
        for what, sig in failed_start_monitor(res):
            fails.append(dict(case=dict(failed_start=True, **case), what=what, signature=sig))
    return fails, stats


# stop() BEFORE THE RUNNER THREAD RAN (implementation monitor, sync engine): a non-blocking spawn hands the child to a runner thread; the
# parent is stopped (or stops the child with stopChild) before that thread is scheduled.  The thread is held back by a Thread class
# patched into the engine's namespace and released after stop() returned: the child must not run afterwards.  (Genuine defect F40,
# found while making the failed-start family robust on a loaded host: repaired in /repo, kept as a regression family.)
def held_runner_cases():
    return [dict(how=how, timer=timer, grandchild=g) for how in ("stop", "stopChild") for timer in (True, False) for g in (True, False)]


def run_held_runner(case):
    import threading, time, types, logging
    logging.disable(logging.CRITICAL)
    import xstate_statemachine.sync_interpreter as si
    from xstate_statemachine import create_machine, SyncInterpreter, MachineLogic
    gate = threading.Event()
    real = threading.Thread

    class HeldThread(real):
        def run(self):
            if self.name.startswith("actor-"):
                gate.wait(5)
            super().run()
    old = si.threading
    si.threading = types.SimpleNamespace(**{k: getattr(threading, k) for k in dir(threading) if not k.startswith("__")})
    si.threading.Thread = HeldThread
    ran = []
    made = []
    res = dict(case=case)
    try:
        def seen(i, c, e, a):
            ran.append(i.machine.id)
            if i not in made:
                made.append(i)
        leaf = create_machine({"id": "leaf", "initial": "on", "states": {"on": {"entry": ["seen"]}}}, logic=MachineLogic(actions={"seen": seen}))
        on = {"entry": ["seen"] + (["spawn_leaf"] if case["grandchild"] else [])}
        if case["timer"]:
            on["after"] = {"20": {"target": "on", "reenter": True, "actions": ["seen"]}}
        kid = create_machine({"id": "kid", "initial": "on", "states": {"on": on}}, logic=MachineLogic(actions={"seen": seen}, services={"leaf": leaf}))
        parent = create_machine({"id": "m", "initial": "a", "states": {"a": {"entry": [{"type": "spawn_kid", "params": {"id": "k"}}],
                                                                         "on": {"DROP": {"actions": [{"type": "xstate.stopChild", "params": {"id": "k"}}]}}}}},
                                logic=MachineLogic(services={"kid": kid}))
        it = SyncInterpreter(parent)
        it.start()
        children = list(it._actors.values())
        if case["how"] == "stop":
            it.stop()
        else:
            it.send("DROP")
        res["ran_before_release"] = list(ran)
        gate.set()
        time.sleep(0.25)
        res["ran_after_release"] = list(ran)
        res["statuses"] = [c.status for c in children] + [x.status for x in made]
        for c in children + made:
            try:
                c.stop()
            except Exception:
                pass
        it.stop()
    except Exception as exc:
        res["harness_exc"] = repr(exc)
    finally:
        gate.set()
        si.threading = old
    return res


def held_runner_monitor(res):
    if "harness_exc" in res or "statuses" not in res:
        return []
    if "running" in res["statuses"] or len(res["ran_after_release"]) > len(res["ran_before_release"]):
        return [("the runner thread of a spawned child was scheduled only after %s had returned: the child was started then and ran on "
                 "(statuses %s, actions run afterwards: %s) - nothing the interpreter created may run after stop()"
                 % ("stop()" if res["case"]["how"] == "stop" else "stopChild", res["statuses"], res["ran_after_release"][len(res["ran_before_release"]):][:5]), None)]
    return []


def held_runner_component():
    from concurrent.futures import ProcessPoolExecutor
    cases = held_runner_cases()
    with ProcessPoolExecutor(max_workers=8) as ex:
        results = list(ex.map(run_held_runner, cases))
    fails = []
    for case, res in zip(cases, results):
        for what, sig in held_runner_monitor(res):
            fails.append(dict(case=dict(held_runner=True, **case), what=what, signature=sig))
    return fails, dict(cases=len(cases), judged=sum(1 for r in results if "statuses" in r))


def run(rep, ctx):
    from concurrent.futures import ProcessPoolExecutor
    rng = random.Random(ctx["seed"] * 7919 + 14)
    big = ctx["tier"] == "thorough"
    cases = family(rng, 900 if big else 210)
    with ProcessPoolExecutor(max_workers=14) as ex:
        results = list(ex.map(impl_case, cases, chunksize=4))
    failures, disagreements = [], []
    evaluations = 0
    for (am, engine, runs, _), res in zip(cases, results):
        for (cx, ops), snaps in zip(runs, res):
            evaluations += 1
            parsed = [common.parse_snapshot(s) for s in snaps]
            for what, sig in monitor(am, engine, ops, parsed):
                failures.append(dict(case=common.case_payload(am, engine, cx, ops), what=what, signature=sig))
    shard = 25
    jobs = []
    for j in range(0, len(cases), shard):
        idx = list(range(j, min(j + shard, len(cases))))
        text = kmacro.HEADER
        for i in idx:
            am, engine, runs, _ = cases[i]
            rows = []
            for (cx, ops), snaps in zip(runs, results[i]):
                if any(len(s) == 1 and s[0][1] == "TIMEOUT" for s in snaps) or sum(len(s) for s in snaps) > 15000:
                    continue
                rows.append("(%s, %s, %s)" % (kmacro.ctx_coq(cx), core.cl(lop_coq(o) for o in ops), core.cl(impl.toks_coq(s) for s in snaps)))
            text += "Definition m%d : machine := %s.\nDefinition r%d := check_life %s m%d %s.\n" % (
                i, am.to_coq(), i, "Sync" if engine == "sync" else "Async", i, core.cl(rows))
        text += "Eval vm_compute in %s.\n" % core.cl("(%d, r%d)" % (i, i) for i in idx)
        jobs.append(("c14_life_%03d" % (j // shard), text))
    outs = core.coq_eval_many(jobs, par=14)
    n = 0
    irreproducible = 0
    for (jn, _), j in zip(jobs, range(0, len(cases), shard)):
        rc, out, _ = outs[jn]
        if rc != 0:
            disagreements.append(dict(component="K-life", case=None, impl=None, model="coqc failed: " + out[-600:]))
            continue
        body = re.sub(r"\s+", "", out[out.find("="):])
        for si, sbad in re.findall(r"\((\d+),\[([0-9;]*)\]\)", body):
            n += 1
            for b in re.findall(r"\d+", sbad):
                am, engine, runs, _ = cases[int(si)]
                kept = [(r, snaps) for r, snaps in zip(runs, results[int(si)])
                        if not (any(len(s) == 1 and s[0][1] == "TIMEOUT" for s in snaps) or sum(len(s) for s in snaps) > 15000)]
                (cx, ops), first = kept[int(b)]
                # (a disagreement must be replayable: see kmacro.check)
                try:
                    again = impl_case((am, engine, [(cx, ops)], None))[0]
                except BaseException:
                    again = None
                if again is not None and again != first:
                    irreproducible += 1
                    continue
                disagreements.append(dict(component="K-life-" + engine[0], case=common.case_payload(am, engine, cx, ops), impl=None,
                                          model="Life model differs from the implementation"))
    rep.coverage.update(evaluations=evaluations, distinct_nontrivial=len({core.case_hash([c[0].to_coq(), c[1], r]) for c in cases for r in c[2]}),
                        rule="sequences of 3-7 lifecycle calls (start / send / stop, repeated and out of order, on timer machines, service machines "
                             "and random machines with final states; with waits on the virtual clock, and a long wait at the end); monitor: every "
                             "status change is an allowed edge, nothing stays armed after stop(), nothing is delivered after stop()",
                        samples=[dict(engine=c[1], ops=[list(o) for o in c[2][0][1]]) for c in cases[:3]],
                        traces_validated_against_impl=n,
                        components={"K-life": dict(machines=n, disagreements=len(disagreements), irreproducible_impl_runs=irreproducible)})
    # stop() of an interpreter that is an actor: what it had scheduled towards OTHER live actors must die with it
    from harness.props import c15
    adis, afails, astats = c15.actor_component(c15.silence_family(rng, 400 if big else 80), "c14_silence")
    afails = [f for f in afails if f.get("signature") is None]
    disagreements += adis
    failures += afails
    rep.coverage["components"]["K-actor (stop silences delayed sends)"] = dict(scenarios=astats["cases"], steps=astats["steps"], disagreements=len(adis))
    ffails, fstats = finished_component(finished_child_family(rng, 240 if big else 60))
    failures += ffails
    rep.coverage["components"]["monitor: stop() below a finished child (implementation only)"] = fstats
    sfails, sstats = failed_start_component(failed_start_cases(rng, 160 if big else 48))
    failures += sfails
    rep.coverage["components"]["monitor: stop() after a start() that failed behind spawned actors (implementation only, both engines)"] = sstats
    hfails, hstats = held_runner_component()
    failures += hfails
    rep.coverage["components"]["monitor: stop() / stopChild before the runner thread of a spawned child was scheduled (implementation only, sync engine)"] = hstats
    core.decide(rep, ctx["proof"], disagreements, failures, None)
    rep.assumptions += ["liveness of OS threads / asyncio tasks after stop() is observed through the interpreter's own registries (task manager, "
                        "timer table) and by letting virtual time pass; it is monitored, not proved"]


def replay(payload):
    import base64, pickle
    case = payload.get("case") or (payload.get("first_disagreement") or {}).get("case")
    if case and case.get("held_runner"):
        res = run_held_runner({k: v for k, v in case.items() if k != "held_runner"})
        print(res)
        bad = held_runner_monitor(res)
        for b in bad:
            print("MONITOR:", b)
        return 1 if bad else 0
    if case and case.get("failed_start"):
        res = run_failed_start({k: v for k, v in case.items() if k != "failed_start"})
        print(res)
        bad = failed_start_monitor(res)
        for b in bad:
            print("MONITOR:", b)
        return 1 if bad else 0
    if case and case.get("finished_child"):
        from harness import actors
        def tup(x):
            return tuple(tup(y) for y in x) if isinstance(x, list) else x
        steps = [tuple(st[:3]) + ([tup(o) for o in st[3]],) if st[0] == "do" else tuple(st) for st in case["steps"]]
        res = actors.run_impl_case((steps, case["engine"], None))
        for st, t in zip(steps, res.get("trace") or []):
            print(st, t["status"], t["nin"], t["sends"])
        bad = finished_monitor(steps, res)
        for b in bad:
            print("MONITOR:", b)
        return 1 if bad else 0
    if case and "steps" in case:
        from harness.props import c15
        return c15.replay(payload)
    if not case or "am_b64" not in case:
        print("no concrete case:", payload.get("broken"))
        return 1
    am = pickle.loads(base64.b64decode(case["am_b64"]))

    def _ev(e):
        if e[0] in ("start", "stop", "start2"):
            return (e[0],)
        if e[0] == "at":
            return ("at", e[1], [_ev(x) for x in e[2]])
        return (e[0], e[1] if isinstance(e[1], str) else tuple(e[1]), e[2])
    ops = [_ev(e) for e in case["events"]]
    res = impl_case((am, case["engine"], [({}, ops)], None))[0]
    for i, s in enumerate(res):
        print(i, ops[i] if i < len(ops) else "", " ".join(str(t[1]) for t in s)[:1200])
    bad = monitor(am, case["engine"], ops, [common.parse_snapshot(s) for s in res])
    for b in bad:
        print("MONITOR:", b)
    return 1 if bad else 0
