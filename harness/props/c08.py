"""C08 - delayed (after) transitions fire when due and never after the state was left."""
from __future__ import annotations

import itertools
import random

from harness import core
from harness.am import AM, Node, Trans
from harness.props import common

LEVEL = "proof"

DELAYS = [100, 210, 430, 870]


def timer_machine(rng):
    tid = itertools.count(1)
    mark = itertools.count(1)
    nodes = [Node(0, "m", None, "compound")]

    def add(parent, key, kind):
        n = Node(len(nodes), key, parent, kind)
        nodes.append(n)
        nodes[parent].children.append(n.idx)
        return n.idx
    a = add(0, "a", "atomic"); b = add(0, "b", "atomic"); c = add(0, "c", "atomic")
    w = add(0, "w", "compound"); x = add(w, "x", "atomic"); y = add(w, "y", "atomic")
    nodes[0].initial = a
    nodes[w].initial = x
    delays = rng.sample(DELAYS, len(DELAYS))
    am = AM(nodes, max_iter=8)

    def after(s, delay, tgt, guard=None):
        t = Trans(next(tid), s, "after.%d.%s" % (delay, am.sid(s)), tgt, guard=guard, actions=[("mark", next(mark))])
        nodes[s].after.append((delay, [t]))
        return t
    after(a, delays[0], rng.choice([b, c, w]), guard=rng.choice([None, None, ("ge", 0, 1)]))
    if rng.random() < 0.6:
        after(a, delays[1], rng.choice([b, c]))          # several independent timers on one state
    if rng.random() < 0.6:
        after(b, delays[2], rng.choice([a, c]))
    if rng.random() < 0.5:
        after(w, delays[3], a)                            # timer on a compound state
        if rng.random() < 0.5:
            after(x, delays[2] if not nodes[b].after else delays[1] + 5, y)
    for s in (a, b, c, w):
        nodes[s].entry = [("mark", next(mark))]
    if rng.random() < 0.35:
        nodes[a].exit = [("slow", next(mark), rng.choice([150, 250, 450]))]     # a slow EXIT action spanning the state's own deadline
    if rng.random() < 0.2:
        nodes[b].entry = nodes[b].entry + [("slow", next(mark), rng.choice([150, 250]))]
    # external moves
    for ev, tgt in (("TOA", a), ("TOB", b), ("TOC", c), ("TOW", w)):
        nodes[0].on.append((ev, [Trans(next(tid), 0, ev, tgt, reenter=False)]))
    nodes[a].on.append(("RE", [Trans(next(tid), a, "RE", a, reenter=True)]))        # re-entry restarts the delay
    nodes[0].on.append(("SLOW", [Trans(next(tid), 0, "SLOW", None, actions=[("slow", next(mark), rng.choice([150, 250, 450]))])]))
    nodes[0].on.append(("SET", [Trans(next(tid), 0, "SET", None, actions=[("assign", 0, 1)])]))
    return am


def timed_ops(rng, n_ops):
    ops = []
    t = 0
    for k in range(1, n_ops + 1):
        t += rng.choice([40, 90, 100, 110, 200, 210, 220, 300, 440, 900]) // 100 * 100 + k   # unique residue per op
        r = rng.random()
        if r < 0.25:
            evs = []
        elif r < 0.8:
            evs = [(rng.choice(["TOA", "TOB", "TOC", "TOW", "RE", "SET"]), "plain", 100 + k)]
        elif r < 0.9:
            evs = [("SLOW", "plain", 100 + k)]
        else:
            # a slow action with leave / come-back queued behind it: an expiry that falls due meanwhile queues behind them
            evs = [("SLOW", "plain", 100 + k), (rng.choice(["TOC", "TOB"]), "plain", 200 + k), ("TOA", "plain", 300 + k)]
        ops.append(("at", t, evs))
    return ops


def family(rng, n, engines=("async", "sync")):
    cases = []
    for i in range(n):
        am = timer_machine(rng)
        runs = [({0: rng.randint(0, 1)}, timed_ops(rng, rng.randint(3, 7))) for _ in range(2)]
        cases.append((am, engines[i % len(engines)], runs, None))
    return cases


def monitor(am, engine, cx, events, snaps):
    """after_ok over the virtual-time log: reconstructed from enter/leave and the op times is C08's declarative
    oracle; here: (1) the census - no timer stays armed for a state that is not active; (2) an after-transition
    only fires from an active source; (3) at most once per activation."""
    out = []
    if any("special" in s for s in snaps):
        return out
    tmap = {t.tid: t for t in am.all_trans()}
    entered_before, act_before = {}, {}
    for k, sn in enumerate(snaps):
        stale = [o for o in sn.get("armed", []) if o not in sn["cfg"]]
        if stale and sn["status"] == 1:
            out.append(("timers/services still armed for inactive state(s) %s (configuration %s)" % (sorted(set(stale)), sn["cfg"]), None))
        if sn["status"] in (2, 3, 4) and sn.get("armed") and False:
            out.append(("armed timers after the machine finished: %s" % sn["armed"], None))
    log = snaps[-1]["log"]
    # after_ok over the virtual-time stamped log: a delayed transition fires only if its state has been continuously
    # active for the whole delay since its MOST RECENT entry, and at most once per activation
    delay_of = {}
    for n in am.nodes:
        for delay, ts in n.after:
            for t in ts:
                delay_of[t.tid] = int(delay)
    now = 0
    entered_at = {}
    active = set()
    act_no = {}
    count = {}
    spans = {}          # state -> [(entered, start of the event during which it was left)] of its finished activations
    cur_begin = 0
    for i_, o in enumerate(log):
        if o[0] == "begin":
            # the clock stamp of an event follows its `begin` record
            cur_begin = log[i_ + 1][1] if i_ + 1 < len(log) and log[i_ + 1][0] == "clock" else now
        if o[0] == "clock":
            now = o[1]
        elif o[0] == "enter":
            active.add(o[1]); entered_at[o[1]] = now; act_no[o[1]] = act_no.get(o[1], 0) + 1
        elif o[0] == "leave":
            active.discard(o[1])
            # (an exit cancels the state's timers BEFORE its exit actions run: what matters is when the leaving event started,
            #  not when a slow exit action let the state finally leave the configuration)
            spans.setdefault(o[1], []).append((entered_at.get(o[1], 0), cur_begin))
        elif o[0] == "trans" and o[1] in delay_of:
            t = tmap[o[1]]
            # (the source may have been left and re-entered by this very transition: look at the activation before it)
            t_enter = entered_before.get(t.src)
            if t_enter is None:
                out.append(("delayed transition %d fired although its state %d was never entered" % (t.tid, t.src), None))
            elif now - t_enter < delay_of[t.tid]:
                # the recorded finding F8 is about an expiry that fell due WHILE an earlier activation was still active and
                # was queued behind the leave / re-entry; a timer that falls due only after its activation was left has
                # survived the exit - that is not F8
                d = delay_of[t.tid]
                queued_behind = any(e + d <= l and e + d <= now for e, l in spans.get(t.src, []))
                out.append(("delayed transition %d (after %d ms) fired at t=%d but its state %d was most recently entered at t=%d: "
                            "only %d ms of continuous activity%s" % (t.tid, d, now, t.src, t_enter, now - t_enter,
                                                                     "" if queued_behind else " (no earlier activation lasted %d ms: the timer of an "
                                                                     "activation that was left before its deadline was not cancelled)" % d),
                            dict(kind="stale-expiry", cause="after-event-matched-by-type-only") if queued_behind else None))
            key = (t.tid, act_before.get(t.src, 0))
            count[key] = count.get(key, 0) + 1
            if count[key] > 1:
                out.append(("delayed transition %d fired %d times in one activation of state %d" % (t.tid, count[key], t.src), None))
        if o[0] == "begin":
            # remember, per state, the entry time / activation number as of the start of this event's processing
            entered_before = dict(entered_at)
            act_before = dict(act_no)
    out.sort(key=lambda f: f[1] is not None)
    return out[:1]


# ---------------------------------------------------------------------------------------------------------------------
# stop() WINDOW (implementation monitor, asyncio engine on the virtual-time loop): stop() of an interpreter that owns a child actor
# whose own stop() takes time (its invoked service cleans up on cancellation) is still in progress when a delayed transition of
# the parent (or of the child) falls due.  The property: a timer never fires after stop() - from the moment stop() was CALLED no
# delayed transition is taken, no user action runs, the configuration does not change.  (Fifth-round seeded change C08-D enqueued
# the expiry directly instead of going through send(), which is where a stopped interpreter drops events.)
def stop_window_cases(rng, n):
    cases = []
    for i in range(n):
        d = rng.choice([120, 200, 310, 450])                 # the parent's delay
        t_stop = rng.choice([x for x in (31, 63, 101, 183, 291) if x < d])
        w = rng.choice([50, 150, 400, 700])                  # how long the child's service needs to wind down
        cases.append(dict(delay=d, t_stop=t_stop, wind_down=w, child_delay=rng.choice([None, d + 20, 90]),
                          nested=rng.random() < 0.4, second=rng.choice([None, d + 60])))
    return cases


def run_stop_window(case):
    import asyncio
    from harness import impl
    from xstate_statemachine import create_machine, Interpreter, MachineLogic
    log = []
    d, w = case["delay"], case["wind_down"]
    loop = impl.VLoop()

    def mark(tag):
        def act(interp, ctx, ev, ad):
            log.append((round(loop.time() * 1000), tag, sorted(interp.current_state_ids)))
        return act

    async def slow_service(interp, ctx, ev):
        try:
            await asyncio.sleep(3600)
        except asyncio.CancelledError:
            await asyncio.sleep(w / 1000.0)                  # cleanup on cancellation: the child's stop() awaits it
            raise

    child_cfg = {"id": "kid", "initial": "run", "states": {
        "run": {"invoke": {"src": "slow"}, "entry": ["kEntry"],
                **({"after": {str(case["child_delay"]): {"target": "late", "actions": ["kFired"]}}} if case["child_delay"] else {})},
        "late": {"entry": ["kLate"]}}}
    child = create_machine(child_cfg, logic=MachineLogic(actions={"kEntry": mark("kEntry"), "kFired": mark("kFired"), "kLate": mark("kLate")},
                                                         services={"slow": slow_service}))
    a = {"invoke": {"src": "kid", "id": "k"}, "exit": ["aExit"],
         "after": {str(d): {"target": "b", "actions": ["fired"]}}}
    if case["second"]:
        a["after"][str(case["second"])] = {"target": "c", "actions": ["fired2"]}
    if case["nested"]:
        states = {"w": {"initial": "a", "states": {"a": a}, "after": {str(d + 35): {"target": "c", "actions": ["firedW"]}}}, "b": {"entry": ["bEntry"]}, "c": {"entry": ["cEntry"]}}
        cfg = {"id": "m", "initial": "w", "states": states}
        a["after"][str(d)]["target"] = "#m.b"
        if case["second"]:
            a["after"][str(case["second"])]["target"] = "#m.c"
    else:
        cfg = {"id": "m", "initial": "a", "states": {"a": a, "b": {"entry": ["bEntry"]}, "c": {"entry": ["cEntry"]}}}
    names = ["aExit", "fired", "fired2", "firedW", "bEntry", "cEntry"]
    parent = create_machine(cfg, logic=MachineLogic(actions={k: mark(k) for k in names}, services={"kid": child}))
    res = dict(case=case)

    async def main():
        it = Interpreter(parent)
        await it.start()
        await asyncio.sleep(case["t_stop"] / 1000.0)
        res["cfg_at_stop"] = sorted(it.current_state_ids)
        res["t_call"] = round(loop.time() * 1000)
        res["log_at_stop"] = len(log)
        await it.stop()
        res["t_returned"] = round(loop.time() * 1000)
        await asyncio.sleep(2.0)
        res["cfg_end"] = sorted(it.current_state_ids)
        res["status"] = it.status
        res["kids"] = [c.status for c in it._actors.values()]
    try:
        loop.run_until_complete(asyncio.wait_for(main(), 30))
    except Exception as exc:                                   # harness trouble is not a verdict
        res["harness_exc"] = repr(exc)
    finally:
        try:
            loop.close()
        except Exception:
            pass
    res["log"] = [list(x) for x in log]
    return res


def stop_window_monitor(res):
    if "harness_exc" in res or "t_call" not in res:
        return []
    # (a record stamped with the very instant stop() was called belongs to an expiry that fell due AT that instant: either order is allowed)
    late = [x for x in res["log"][res["log_at_stop"]:] if x[0] > res["t_call"]]
    if late:
        return [("stop() was called at t=%d ms (it returned at t=%d ms, after its child actor had wound down) and afterwards user code ran: %s - "
                 "a delayed transition must not fire once stop() was called" % (res["t_call"], res["t_returned"], late[:3]), None)]
    if res["cfg_end"] != res["cfg_at_stop"] and len(res["log"]) == res["log_at_stop"]:
        return [("the configuration changed after stop() was called: %s -> %s" % (res["cfg_at_stop"], res["cfg_end"]), None)]
    if res["status"] != "stopped":
        return [("status after stop() is %r" % res["status"], None)]
    return []


def stop_window_component(cases):
    from concurrent.futures import ProcessPoolExecutor
    with ProcessPoolExecutor(max_workers=12) as ex:
        results = list(ex.map(run_stop_window, cases, chunksize=4))
    fails, stats = [], dict(cases=len(cases), judged=0, deadline_inside_window=0)
    for case, res in zip(cases, results):
        if "harness_exc" in res or "t_call" not in res:
            continue
        stats["judged"] += 1
        if res["t_call"] < case["delay"] <= res["t_returned"]:
            stats["deadline_inside_window"] += 1
        for what, sig in stop_window_monitor(res):
            fails.append(dict(case=dict(stop_window=True, **case), what=what, signature=sig))
    return fails, stats


def stale_signature(am):
    return dict(kind="stale-expiry", cause="after-event-matched-by-type-only")


def run(rep, ctx):
    rng = random.Random(ctx["seed"] * 7919 + 8)
    big = ctx["tier"] == "thorough"
    dis_all, fail_all = [], []
    fams = [("timers", family(rng, 900 if big else 200),
             "timer machines (1-2 independent timers on a state, a timer on a compound state and on its child, guarded expiry, re-entry) "
             "driven on a virtual clock: operations at chosen instants (before / after each deadline), waits, slow actions spanning deadlines "
             "with leave / come-back queued behind them; async engine on a virtual-time event loop, sync engine on deterministic threads")]
    for name, cases, rule in fams:
        dis, fails, stats = common.run_macro_property(rep, ctx, "c08_" + name, cases, monitor, rule)
        dis_all += dis
        fail_all += fails

    wfails, wstats = stop_window_component(stop_window_cases(rng, 240 if big else 60))
    rep.coverage.setdefault("components", {})["monitor: a deadline inside the window of a slow stop() (implementation only, asyncio engine, virtual time)"] = wstats
    fail_all += wfails

    def search(extra):
        _, f2, _ = common.run_macro_property(rep, ctx, "c08_search", family(random.Random(ctx["seed"] + 81), 300), monitor, "search: 300 more")
        return f2
    core.decide(rep, ctx["proof"], dis_all, fail_all, search)
    rep.assumptions += ["time is virtual (integer ms); two expiries at the same instant are marked inconclusive rather than ordered",
                        "sync engine: preemption only at Event.wait / thread start / slow actions (deterministic baton scheduler)"]


def replay(payload):
    case = payload.get("case") or {}
    if case.get("stop_window"):
        res = run_stop_window({k: v for k, v in case.items() if k != "stop_window"})
        fails = stop_window_monitor(res)
        for what, _ in fails:
            print("C08 replay:", what)
        return 1 if fails else 0
    return common.replay_macro(payload, monitor)
