"""C20 - event descriptors: exact > partial > wildcard; internal private; null forbids.

Proof: Props/C20.v (theorems about the function as translated from the
source, tie T) + Props side of forbidden transitions (Select model, C02).
Correspondence K-match: Match.matching vs BaseInterpreter._matching_descriptors
on an exhaustively enumerated small scope; K-select on descriptor-focused
machines (macro level: which marker fires)."""
from __future__ import annotations

import itertools
import random

from harness import core

LEVEL = "proof"

INTERNAL = ("done.", "error.", "after.", "xstate.")


def spec_matching(keys, ev):
    """The property text, restated independently of the implementation."""
    if not keys or not ev:
        return []
    out = [ev] if ev in keys else []
    if ev.startswith(INTERNAL):
        return out
    parts = []
    for k in keys:
        if k != "*" and k.endswith(".*"):
            p = k[:-2]
            if ev == p or ev.startswith(p + "."):
                parts.append(k)
    parts = sorted(parts, key=len, reverse=True)  # stable; distinct lengths by C20_order
    out += parts
    if "*" in keys:
        out.append("*")
    return out


def universe():
    segs = ["a", "b"]
    seqs = [".".join(p) for n in (1, 2, 3) for p in itertools.product(segs, repeat=n)]
    events = seqs + ["done.a", "done.state.a.b", "error.platform.a", "after.5.a", "xstate.a", "xstate.error.actor.a",
                     "", "*", ".*", "a.*", "a..b", "a.", ".a", "ab", "a.bb", "donea", "done"]
    keys = list(dict.fromkeys(
        events[:-0 or None] + [s + ".*" for s in seqs if s.count(".") <= 1] +
        ["*", "*.*", ".*", "done.*", "done.state.*", "after.*", "error.*", "xstate.*", "ab.*", "a.b.c.*", "a..*", "..*"]))
    keys = [k for k in keys if k != ""] + [""]
    return events, keys


def key_sets(tier, rng):
    events, keys = universe()
    sets = [()]
    sets += [(k,) for k in keys]
    sets += list(itertools.permutations(keys, 2)) if tier == "thorough" else list(itertools.combinations(keys, 2))
    n_rand = 4000 if tier == "thorough" else 700
    for _ in range(n_rand):
        n = rng.choice([3, 3, 4, 5, 6])
        s = tuple(rng.sample(keys, n))
        sets.append(s)
    return events, sets


def impl_matching():
    from xstate_statemachine.base_interpreter import BaseInterpreter
    return BaseInterpreter._matching_descriptors


def run(rep, ctx):
    rng = random.Random(ctx["seed"] * 7919 + 20)
    tier = ctx["tier"]
    events, sets = key_sets(tier, rng)
    disagreements, monitor_failures = [], []
    try:
        f = impl_matching()
        binding_err = None
    except Exception as exc:  # renamed / moved: component-level tie unavailable
        f, binding_err = None, repr(exc)
    rows = []
    evaluations = 0
    nontrivial = set()
    for s in sets:
        answers = []
        for ev in events:
            try:
                got = f({k: [] for k in s}, ev) if f else None
                got = list(got)
                if not all(isinstance(x, str) for x in got):
                    raise TypeError("non-str in result")
            except Exception as exc:
                got = ["<error:%s>" % type(exc).__name__]
            answers.append(got)
            evaluations += 1
            exp = spec_matching(list(s), ev)
            if got != exp:
                monitor_failures.append(dict(case=dict(keys=list(s), event=ev), what="descriptor order/selection differs "
                                             "from the property text", expected=exp, observed=got,
                                             signature=dict(kind="match", keys=list(s), event=ev)))
            if len(exp) >= 1:
                nontrivial.add((s, ev))
        rows.append((s, answers))
    if binding_err:
        disagreements.append(dict(component="K-match", case=None, model=None, impl="binding failed: " + binding_err))
    # model side, in Coq, sharded
    shard = 250
    jobs = []
    for i in range(0, len(rows), shard):
        chunk = rows[i:i + shard]
        body = ";\n".join("(%s, %s)" % (core.cl(core.cq(k) for k in s),
                                        core.cl(core.cl(core.cq(x) for x in a) for a in ans)) for s, ans in chunk)
        text = ("From XSM Require Import Model.Cases.\nOpen Scope string_scope.\n"
                "Definition events : list string := %s.\n"
                "Definition rows : list (list string * list (list string)) := [\n%s].\n"
                "Eval vm_compute in (check_match events rows).\n") % (core.cl(core.cq(e) for e in events), body)
        jobs.append(("c20_match_%03d" % (i // shard), text))
    results = core.coq_eval_many(jobs, par=12)
    model_evals = 0
    for (name, _), i in zip(jobs, range(0, len(rows), shard)):
        rc, out, _dt = results[name]
        if rc != 0:
            disagreements.append(dict(component="K-match", case=None, model="coqc failed: " + out[-600:], impl=None))
            continue
        model_evals += min(shard, len(rows) - i) * len(events)
        for bad in core.parse_nat_pairs(out)[0] if core.parse_nat_pairs(out) else []:
            r, e = bad
            s, ans = rows[i + r]
            disagreements.append(dict(component="K-match", case=dict(keys=list(s), event=events[e]),
                                      model="Match.matching differs (see spec)", impl=ans[e],
                                      spec=spec_matching(list(s), events[e])))

    # macro level (which marker fires, forbidden transitions): shared with C02's K-select
    macro = {}
    try:
        from harness.props import c02
        macro = c02.descriptor_macro(rep, ctx, disagreements, monitor_failures)
    except ImportError:
        macro = {"note": "K-select not built yet"}

    def search(extra_cases):
        # the regular run already evaluates the monitor on every enumerated case; widen the random part
        out = []
        evs, more = key_sets("thorough", random.Random(ctx["seed"] + 1))
        if f is None:
            return out
        for s in more[:20000]:
            for ev in evs:
                try:
                    got = list(f({k: [] for k in s}, ev))
                except Exception as exc:
                    got = ["<error:%s>" % type(exc).__name__]
                exp = spec_matching(list(s), ev)
                if got != exp:
                    out.append(dict(case=dict(keys=list(s), event=ev), what="descriptor order/selection differs from the property text",
                                    expected=exp, observed=got, signature=dict(kind="match", keys=list(s), event=ev)))
                    if len(out) >= 3:
                        return out
        return out

    core.decide(rep, ctx["proof"], disagreements, monitor_failures, search)
    rep.coverage.update(
        evaluations=evaluations, distinct_nontrivial=len(nontrivial),
        rule="key lists: empty, every singleton and every pair (thorough: ordered pairs) of a %d-key universe plus seeded "
             "random lists of 3-6 keys; events: all 1-3 segment names over {a,b}, internal (done./error./after./xstate.) and "
             "hostile strings; non-trivial = at least one key matches; each case = (key list, event)" % len(universe()[1]),
        samples=[dict(keys=list(s), event=ev, impl=a[events.index(ev)], spec=spec_matching(list(s), ev))
                 for (s, a), ev in zip(rows[60:63], events[:3])],
        exhaustive=True, traces_validated_against_impl=model_evals,
        components={"K-match": dict(cases=evaluations, model_evaluations=model_evals,
                                    disagreements=len([d for d in disagreements if d["component"] == "K-match"])),
                    "K-select(descriptors)": macro},
        distribution=dict(key_lists=len(sets), events=len(events)),
    )
    rep.assumptions += ["Python dict preserves insertion order and has unique keys (NoDup hypothesis of C20_order)",
                        "string constants are ASCII (py2coq rejects anything else)"]


def replay(payload):
    f = impl_matching()
    case = payload.get("case") or (payload.get("first_disagreement") or {}).get("case")
    if not case:
        print("replay: no concrete case in file (tie broken without failing input):", payload.get("broken"))
        return 1
    got = list(f({k: [] for k in case["keys"]}, case["event"]))
    exp = spec_matching(case["keys"], case["event"])
    print("keys=%r event=%r\n impl: %r\n spec: %r" % (case["keys"], case["event"], got, exp))
    return 0 if got == exp else 1
