"""C06 - guards gate transitions exactly: composites, stateIn, cond alias, raise=false, missing=error."""
from __future__ import annotations

import itertools
import random

from harness import core
from harness.am import AM, Node, Trans
from harness.props import common, c02

LEVEL = "proof"

ATOMS = [("ge", 0, 1), ("ge", 1, 1), ("pz", 0), ("pz", 2), ("raises", 1), ("in", "m.a"), ("in", "#m.a.x"), ("in", "b"), ("in", "x"),
         ("in", ".x"), ("in", ".a"), ("in", "a.x"), ("in", "#x"), ("in", "m"), ("in", ""), ("in", "a"), ("in", "#m.a"),
         ("missing", 2)]


def formulas(depth, rng=None, cap=None):
    if depth == 0:
        return list(ATOMS)
    sub = formulas(depth - 1)
    out = list(sub)
    out += [("not", g) for g in sub]
    pairs = list(itertools.product(sub, repeat=2))
    if cap and len(pairs) > cap:
        pairs = rng.sample(pairs, cap)
    for a, b in pairs:
        out.append(("and", [a, b]))
        out.append(("or", [a, b]))
    for t in (rng.sample(list(itertools.product(sub, repeat=3)), min(cap or 40, 40)) if rng else []):
        out.append(("and", list(t)))
        out.append(("or", list(t)))
    return out


def guard_machine(g, position, g2):
    """m: a(compound: x, y) | b | c | ab.  Event E; candidate lists on a.x and on a; the guard under test at `position`.  The last
    state's key has the key of `a` as a PREFIX (and `b` as a suffix): a stateIn that names `a` or `b` must not hold there (fifth-round
    seeded change C06-D matched the target at the start of a path segment only).  Event F: the guard under test once more, on the
    root, so that it is evaluated wherever the first event has taken the machine."""
    nodes = [Node(0, "m", None, "compound"), Node(1, "a", 0, "compound"), Node(2, "x", 1, "atomic"), Node(3, "y", 1, "atomic"),
             Node(4, "b", 0, "atomic"), Node(5, "c", 0, "atomic"), Node(6, "ab", 0, "atomic")]
    nodes[0].children = [1, 4, 5, 6]; nodes[1].children = [2, 3]
    nodes[0].initial = 1; nodes[1].initial = 2
    am = AM(nodes, max_iter=5)
    T = lambda tid, src, tgt, guard: Trans(tid, src, "E", tgt, guard=guard, actions=[("mark", tid)])
    if position == 0:      # first of three on the leaf
        nodes[2].on.append(("E", [T(1, 2, 4, g), T(2, 2, 5, g2), T(3, 2, 6, None)]))
    elif position == 1:    # second of three on the leaf
        nodes[2].on.append(("E", [T(1, 2, 4, g2), T(2, 2, 5, g), T(3, 2, 6, None)]))
    else:                  # on the ancestor, behind a guarded leaf candidate
        nodes[2].on.append(("E", [T(1, 2, 4, g2)]))
        nodes[1].on.append(("E", [T(2, 1, 5, g), T(3, 1, 6, None)]))
    nodes[0].on.append(("F", [Trans(4, 0, "F", 5, guard=g, actions=[("mark", 4)])]))
    return am


def settle_machine(g, z, via_event, deep):
    """a guard whose value CHANGES between two microsteps of one settle: `work` (compound) declares a guarded eventless
    transition to `bail`; its child a has an unguarded eventless transition to b whose action assigns ctx[0] := z.  Microstep 1 is
    won by the deeper transition (the guard on `work` was consulted on the way up); microstep 2 must consult the guard AGAIN, in
    the new context.  (Third-round seeded change C06-C kept one guard memo for the whole settle loop of the sync engine.)"""
    nodes = [Node(0, "m", None, "compound"), Node(1, "idle", 0, "atomic"), Node(2, "work", 0, "compound"), Node(3, "a", 2, "atomic"),
             Node(4, "b", 2, "atomic"), Node(5, "bail", 0, "atomic")]
    nodes[0].children = [1, 2, 5]; nodes[2].children = [3, 4]
    nodes[0].initial = 1 if via_event else 2
    nodes[2].initial = 3
    am = AM(nodes, max_iter=6)
    nodes[1].on.append(("GO", [Trans(1, 1, "GO", 2)]))
    nodes[2].on.append(("", [Trans(2, 2, "", 5, guard=g, actions=[("mark", 2)])]))
    acts = [("assign", 0, z), ("mark", 3)]
    if deep:
        # two hops below before the context changes: the guard is consulted three times
        c = Node(6, "c", 2, "atomic"); nodes.append(c); nodes[2].children.append(6)
        nodes[3].on.append(("", [Trans(3, 3, "", 6, actions=[("mark", 4)])]))
        nodes[6].on.append(("", [Trans(4, 6, "", 4, actions=acts)]))
    else:
        nodes[3].on.append(("", [Trans(3, 3, "", 4, actions=acts)]))
    for n in nodes[1:]:
        n.entry = [("mark", 10 + n.idx)]
    return am


def geval_spec(g, cx):
    """the property's reading of a guard: ordinary boolean meaning, a raising predicate counts as false"""
    k = g[0]
    if k == "ge":
        return cx.get(g[1], 0) >= g[2]
    if k == "raises":
        return False
    if k == "not":
        return not geval_spec(g[1], cx)
    if k == "and":
        return all(geval_spec(x, cx) for x in g[1])
    if k == "or":
        return any(geval_spec(x, cx) for x in g[1])
    raise ValueError(g)


def settle_monitor(am, engine, cx, events, snaps):
    out = c02.monitor(am, engine, cx, events, snaps)
    spec = getattr(am, "settle_spec", None)
    if spec is None or any("special" in s for s in snaps) or not snaps:
        return out
    g, z = spec
    final = snaps[-1]
    if any(o[0] == "err" for o in final.get("log", [])) or final["status"] != 1:
        return out
    after = dict(cx)
    after[0] = z
    want = [0, 5] if geval_spec(g, after) else [0, 2, 4]
    if sorted(final["cfg"]) != want:
        out = [("the guarded eventless transition work -> bail was %s although its guard is %s in the context %s it is selected in "
                "(the guard was last true/false in an EARLIER microstep of the same settle): configuration %s, expected %s"
                % ("taken" if 5 in final["cfg"] else "not taken", geval_spec(g, after), after, sorted(final["cfg"]), want), None)] + out
    return out[:1]


def settle_family():
    cases = []
    gs = [("not", ("ge", 0, 1)), ("ge", 0, 1), ("and", [("ge", 1, 1), ("not", ("ge", 0, 1))]), ("or", [("ge", 0, 2), ("raises", 1)])]
    i = 0
    for g in gs:
        for z in (1, 2, 0):
            for via_event in (True, False):
                for deep in (False, True):
                    am = settle_machine(g, z, via_event, deep)
                    am.settle_spec = (g, z)
                    runs = [({0: a, 1: b}, [("GO", "plain", 1), ("GO", "plain", 2)]) for a, b in ((0, 1), (2, 1), (0, 0))]
                    for engine in ("sync", "async"):
                        cases.append((am, engine, runs, dict(probe_can=True, gspell=i % 2, cond=(i // 2) % 2 == 1)))
                        i += 1
    return cases


def families(tier, rng):
    big = tier == "thorough"
    fs = formulas(1, rng, cap=None)
    if big:
        fs += rng.sample(formulas(2, rng, cap=300), 600)
    else:
        fs = [f for f in fs if f[0] not in ("and", "or")] + rng.sample([f for f in fs if f[0] in ("and", "or")], 70) \
            + rng.sample(formulas(2, rng, cap=60), 40)
    cases = []
    g2s = [("ge", 1, 1), ("raises", 3), ("not", ("ge", 0, 1))]
    for i, g in enumerate(fs):
        for pos in (0, 1, 2):
            am = guard_machine(g, pos, g2s[(i + pos) % 3])
            runs = [({0: a, 1: b}, [("E", "plain", 1), (("E", "F")[(i + pos + a + b) % 2], "plain", 2)]) for a, b in itertools.product((0, 2), (0, 1))]
            opts = dict(probe_can=True, gspell=(i + pos) % 2, cond=((i // 2 + pos) % 2 == 1))
            cases.append((am, ("sync", "async")[(i + pos) % 2], runs, opts))
    return [("settle", settle_family(), "a guarded eventless transition on a compound state whose guard changes value between two "
             "microsteps of ONE settle (the deeper eventless transition that wins first assigns the variable the guard reads): 4 guards x "
             "3 assigned values x entered by event / at start() x 1-2 hops x 3 contexts, both engines"),
            ("formulas", cases, "guard formulas of nesting depth <=%d over %d atoms (named/parameterised incl. falsy params, raising, "
             "stateIn in four spellings, missing) at three positions (first/second of a candidate list, on the ancestor) x 4 context "
             "valuations, both operand spellings, guard/cond key alternating (%d formulas)" % (2, len(ATOMS), len(fs)))]


def run(rep, ctx):
    rng = random.Random(ctx["seed"] * 7919 + 6)
    dis_all, fail_all = [], []
    for name, cases, rule in families(ctx["tier"], rng):
        dis, fails, stats = common.run_macro_property(rep, ctx, "c06_" + name, cases, settle_monitor if name == "settle" else c02.monitor, rule)
        dis_all += dis
        fail_all += fails
    rep.coverage["exhaustive"] = True

    def search(extra):
        cases = families("thorough", random.Random(ctx["seed"] + 61))[0][1][:600]
        _, fails, _ = common.run_macro_property(rep, ctx, "c06_search", cases, c02.monitor, "search: deeper formulas")
        return fails
    core.decide(rep, ctx["proof"], dis_all, fail_all, search)
    rep.assumptions += ["choose / enqueueActions.check reuse the same evaluator in the code; the model has no choose action yet, "
                        "so that clause is covered only through guard evaluation on transitions"]


def replay(payload):
    return common.replay_macro(payload, settle_monitor)
