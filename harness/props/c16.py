"""C16 - behaviour is deterministic: same machine, logic and events give the same trace under different hash seeds,
in-process rebuilds and (through C05) both engines."""
from __future__ import annotations

import json
import os
import subprocess
import sys
from concurrent.futures import ThreadPoolExecutor

from harness import core

LEVEL = "proof"


def worker(hashseed, seed, n):
    env = dict(os.environ, PYTHONHASHSEED=str(hashseed), PYTHONPATH=core.REPO + "/src:" + core.ROOT, PYTHONDONTWRITEBYTECODE="1")
    p = subprocess.run([core.PY, "-m", "harness.det_worker", str(seed), str(n)], cwd=core.ROOT, env=env,
                       capture_output=True, text=True, timeout=1500)
    line = [l for l in p.stdout.splitlines() if l.startswith("[")]
    if p.returncode != 0 or not line:
        return None, p.stderr[-800:]
    return json.loads(line[-1]), None


def run(rep, ctx):
    big = ctx["tier"] == "thorough"
    seeds = [1, 2, 3, 4] if not big else list(range(1, 17))
    n = 60 if not big else 200
    with ThreadPoolExecutor(max_workers=8) as ex:
        results = list(ex.map(lambda h: worker(h, ctx["seed"], n), seeds))
    failures, disagreements = [], []
    ref = None
    for h, (digests, err) in zip(seeds, results):
        if digests is None:
            disagreements.append(dict(component="hash-seed-run", case=None, impl="worker failed under PYTHONHASHSEED=%s: %s" % (h, err), model=None))
            continue
        if ref is None:
            ref = (h, digests)
            continue
        diffs = [i for i, (a, b) in enumerate(zip(ref[1], digests)) if a != b and "TIMEOUT" not in (a, b)]
        if len(digests) != len(ref[1]) or diffs:
            failures.append(dict(case=dict(kind="hash-seed", seeds=[ref[0], h], run_indices=diffs[:10], verif_seed=ctx["seed"], n=n),
                                 what="%d of %d traces differ between PYTHONHASHSEED=%s and %s (first run indices %s); rerun: "
                                      "PYTHONHASHSEED=<h> python -m harness.det_worker %d %d" % (len(diffs), len(digests), ref[0], h, diffs[:5], ctx["seed"], n),
                                 signature=None))
    rebuild = [i for (digests, _) in results if digests for i, d in enumerate(digests) if d.endswith("!rebuild")]
    if rebuild:
        failures.append(dict(case=dict(kind="in-process-rebuild", run_indices=rebuild[:10], verif_seed=ctx["seed"], n=n),
                             what="%d traces differ between two in-process builds of the same machine" % len(rebuild), signature=None))
    # generated identifiers (actor uuids) must not influence who receives what: repeat actor scenarios, compare
    from concurrent.futures import ProcessPoolExecutor
    from harness import actors
    from harness.props import c15
    import random as _r
    arng = _r.Random(ctx["seed"] * 7919 + 16)
    acases = [(sc, eng, 3) for sc in actors.directed_scenarios() for eng in ("sync", "async")]
    for i in range(120 if big else 30):
        acases.append((actors.random_scenario(arng, 8, rich=False), ("sync", "async")[i % 2], 3))
    reps = 4
    with ProcessPoolExecutor(max_workers=14) as ex:
        ares = list(ex.map(actors.run_impl_case, [c for c in acases for _ in range(reps)], chunksize=4))
    differing = 0
    timeouts = 0
    for i, c in enumerate(acases):
        outs = [[t[1] for t in r["snaps"][-1]] for r in ares[i * reps:(i + 1) * reps]]
        outs = [o for o in outs if "TIMEOUT" not in o]     # cut by the wall-clock watchdog: inconclusive
        timeouts += reps - len(outs)
        if outs and any(o != outs[0] for o in outs[1:]):
            differing += 1
            failures.append(dict(case=dict(kind="actor-rerun", steps=c[0], engine=c[1], max_iter=c[2]),
                                 what="the same actor scenario, run %d times in fresh processes' worth of generated actor ids, ended differently: "
                                      "a generated identifier influenced addressing" % reps, signature=None))
    total = len(ref[1]) if ref else 0
    rep.coverage.update(evaluations=total * len(seeds), distinct_nontrivial=total,
                        rule="random machines with history and parallel regions, history machines (C11 family) and completion machines (C10 family); "
                             "every run executed on both engines in %d subprocesses with different PYTHONHASHSEED and twice in-process; "
                             "traces (configurations, context, every action with its event, entry/exit/schedule/cancel order - rollback re-arm "
                             "order included, un-canonicalised) compared byte for byte; distinct = runs" % len(seeds),
                        samples=[dict(hashseeds=seeds, runs=total, first_digests=(ref[1][:3] if ref else []))],
                        traces_validated_against_impl=total * len(seeds),
                        components={"actor-reruns": dict(scenarios=len(acases), repetitions=reps, differing=differing, watchdog_cut=timeouts),
                                    "hash-seed-runs": dict(seeds=seeds, runs_per_seed=total, watchdog_cut=sum(d.count("TIMEOUT") for d, _ in results if d), differing=sum(len(f["case"].get("run_indices", [])) for f in failures))})
    core.decide(rep, ctx["proof"], disagreements, failures, None)
    rep.assumptions += ["hash-seed and heap-layout independence of the Python process is observed by repeated execution; the theorems are about the "
                        "model's iteration oracle (every set iteration site is followed by a sort with a total order)"]


def replay(payload):
    c = payload.get("case", {})
    if c.get("kind") == "actor-rerun":
        from harness import actors
        steps = [tuple(s[:3]) + ([tuple(o) for o in s[3]],) if s[0] == "do" else tuple(s) for s in c["steps"]]
        outs = [[t[1] for t in actors.run_impl_case((steps, c["engine"], c.get("max_iter")))["snaps"][-1]] for _ in range(6)]
        for o in outs:
            print(o)
        return 1 if any(o != outs[0] for o in outs[1:]) else 0
    print("rerun under two hash seeds and diff:", c)
    a, _ = worker(c.get("seeds", [1, 2])[0], c.get("verif_seed", 0), c.get("n", 60))
    b, _ = worker(c.get("seeds", [1, 2])[-1], c.get("verif_seed", 0), c.get("n", 60))
    diffs = [i for i, (x, y) in enumerate(zip(a or [], b or [])) if x != y]
    print("differing run indices:", diffs[:20])
    return 1 if diffs else 0
