"""C16 - behaviour is deterministic: same machine, logic and events give the same trace under different hash seeds,
in-process rebuilds and (through C05) both engines."""
from __future__ import annotations

import json
import os
import subprocess
import sys
from concurrent.futures import ThreadPoolExecutor

from harness import core

LEVEL = "proof"


def worker(hashseed, seed, n):
    env = dict(os.environ, PYTHONHASHSEED=str(hashseed), PYTHONPATH="/repo/src:" + core.ROOT, PYTHONDONTWRITEBYTECODE="1")
    p = subprocess.run([core.PY, "-m", "harness.det_worker", str(seed), str(n)], cwd=core.ROOT, env=env,
                       capture_output=True, text=True, timeout=1500)
    line = [l for l in p.stdout.splitlines() if l.startswith("[")]
    if p.returncode != 0 or not line:
        return None, p.stderr[-800:]
    return json.loads(line[-1]), None


def run(rep, ctx):
    big = ctx["tier"] == "thorough"
    seeds = [1, 2, 3, 4] if not big else list(range(1, 17))
    n = 60 if not big else 200
    with ThreadPoolExecutor(max_workers=8) as ex:
        results = list(ex.map(lambda h: worker(h, ctx["seed"], n), seeds))
    failures, disagreements = [], []
    ref = None
    for h, (digests, err) in zip(seeds, results):
        if digests is None:
            disagreements.append(dict(component="hash-seed-run", case=None, impl="worker failed under PYTHONHASHSEED=%s: %s" % (h, err), model=None))
            continue
        if ref is None:
            ref = (h, digests)
            continue
        diffs = [i for i, (a, b) in enumerate(zip(ref[1], digests)) if a != b]
        if len(digests) != len(ref[1]) or diffs:
            failures.append(dict(case=dict(kind="hash-seed", seeds=[ref[0], h], run_indices=diffs[:10], verif_seed=ctx["seed"], n=n),
                                 what="%d of %d traces differ between PYTHONHASHSEED=%s and %s (first run indices %s); rerun: "
                                      "PYTHONHASHSEED=<h> python -m harness.det_worker %d %d" % (len(diffs), len(digests), ref[0], h, diffs[:5], ctx["seed"], n),
                                 signature=None))
    rebuild = [i for (digests, _) in results if digests for i, d in enumerate(digests) if d.endswith("!rebuild")]
    if rebuild:
        failures.append(dict(case=dict(kind="in-process-rebuild", run_indices=rebuild[:10], verif_seed=ctx["seed"], n=n),
                             what="%d traces differ between two in-process builds of the same machine" % len(rebuild), signature=None))
    total = len(ref[1]) if ref else 0
    rep.coverage.update(evaluations=total * len(seeds), distinct_nontrivial=total,
                        rule="random machines with history and parallel regions, history machines (C11 family) and completion machines (C10 family); "
                             "every run executed on both engines in %d subprocesses with different PYTHONHASHSEED and twice in-process; "
                             "traces (configurations, context, every action with its event, entry/exit/schedule/cancel order - rollback re-arm "
                             "order included, un-canonicalised) compared byte for byte; distinct = runs" % len(seeds),
                        samples=[dict(hashseeds=seeds, runs=total, first_digests=(ref[1][:3] if ref else []))],
                        traces_validated_against_impl=total * len(seeds),
                        components={"hash-seed-runs": dict(seeds=seeds, runs_per_seed=total, differing=sum(len(f["case"].get("run_indices", [])) for f in failures))})
    core.decide(rep, ctx["proof"], disagreements, failures, None)
    rep.assumptions += ["hash-seed and heap-layout independence of the Python process is observed by repeated execution; the theorems are about the "
                        "model's iteration oracle (every set iteration site is followed by a sort with a total order)"]


def replay(payload):
    c = payload.get("case", {})
    print("rerun under two hash seeds and diff:", c)
    a, _ = worker(c.get("seeds", [1, 2])[0], c.get("verif_seed", 0), c.get("n", 60))
    b, _ = worker(c.get("seeds", [1, 2])[-1], c.get("verif_seed", 0), c.get("n", 60))
    diffs = [i for i, (x, y) in enumerate(zip(a or [], b or [])) if x != y]
    print("differing run indices:", diffs[:20])
    return 1 if diffs else 0
