"""C07 - failure containment and transition atomicity."""
from __future__ import annotations

import copy
import random

from harness import core, impl, kmacro
from harness.props import common

LEVEL = "proof"


def truncate(acts):
    """The fault-free twin of an action list: a failing user action still runs (it records, then raises) but nothing
    after it does; a built-in whose callback raises has no effect and nothing after it runs."""
    out = []
    for a in acts:
        if a[0] == "fail":
            out.append(("mark", a[1]))
            break
        if a[0] == "bad":
            break
        out.append(a)
    return out


def twin(am):
    t = copy.deepcopy(am)
    for n in t.nodes:
        n.entry = truncate(n.entry)
        n.exit = truncate(n.exit)
    for tr in t.all_trans():
        tr.actions = truncate(tr.actions)
    return t


def strip(log):
    return [o for o in log if o[0] not in ("acterr",)]


def monitor(am, engine, cx, events, snaps):
    out = []
    if any("special" in s for s in snaps):
        return out
    if any(o[0] == "err" for o in snaps[0].get("log", [])):
        return out   # start() itself raised: the library did not agree to start this machine
    log = snaps[-1]["log"]
    fails = {a[1] for n in am.nodes for a in n.entry + n.exit if a[0] in ("fail", "bad")} | \
            {a[1] for t in am.all_trans() for a in t.actions if a[0] in ("fail", "bad")}
    fail_marks = {a[1] for n in am.nodes for a in n.entry + n.exit if a[0] == "fail"} | \
                 {a[1] for t in am.all_trans() for a in t.actions if a[0] == "fail"}
    # (a) on_action_error is notified for every failing action that ran
    for i, o in enumerate(log):
        if o[0] == "act" and o[1] in fail_marks:
            if not (i + 1 < len(log) and log[i + 1] == ("acterr", o[1])):
                out.append(("action f%d raised but on_action_error was not notified" % o[1], None))
    # (b) a fault is a truncation: same configurations, context, status and actions as the fault-free twin
    if any(o[0] == "acterr" for o in log):
        fn = impl.run_sync if engine == "sync" else impl.run_async
        tw = fn(twin(am), events, seed_ctx=kmacro.ctx_seed(cx))
        tws = [common.parse_snapshot(s) for s in tw]
        if len(tws) == len(snaps) and not any("special" in s for s in tws):
            for k, (a, b) in enumerate(zip(snaps, tws)):
                if (a["cfg"], a["ctx"], a["status"], a["output"], a["hist"]) != (b["cfg"], b["ctx"], b["status"], b["output"], b["hist"]):
                    out.append(("after step %d the run with failing actions differs from its fault-free truncation twin: "
                                "cfg %s vs %s, ctx %s vs %s, status %s vs %s" % (k, a["cfg"], b["cfg"], a["ctx"], b["ctx"], a["status"], b["status"]), None))
                    break
            else:
                # an onDone whose only content is an action list truncated to nothing cannot be written in the twin
                # (an empty onDone object is "no onDone" to the parser): the twin then never processes that done.state
                # event, so its bracket records (begin / clock / trans) are left out of the comparison
                lost = [n.idx for n in am.nodes if n.ondone is not None and am.trans_json(n.ondone)
                        and not am.trans_json(twin(am).nodes[n.idx].ondone)]
                keep = (lambda l: [o for o in strip(l) if o[0] not in ("begin", "clock", "trans")]) if lost else strip
                if keep(snaps[-1]["log"]) != keep(tws[-1]["log"]):
                    out.append(("the run with failing actions executed different actions than its fault-free truncation twin", None))
    # (c) an aborted transition leaves the configuration as it was; later events are processed
    for k in range(1, len(snaps)):
        pre, post = snaps[k - 1], snaps[k]
        new = post["log"][len(pre["log"]):]
        errs = [i for i, o in enumerate(new) if o[0] == "err"]
        if errs and pre["status"] == 1 and not pre["queue"]:
            first = errs[0]
            if not any(o[0] in ("trans", "begin") for o in new[1:first]) and engine == "sync":
                # the first transition of the step aborted and send() raised at once
                if post["cfg"] != pre["cfg"]:
                    out.append(("an aborted transition left configuration %s, before it was %s" % (post["cfg"], pre["cfg"]), None))
            # (d) re-arm: every state whose tasks were cancelled in the aborted segment is scheduled again
            seg = new[:first]
            last_tr = max([i for i, o in enumerate(seg) if o[0] in ("trans", "begin")] or [0])
            seg = seg[last_tr:]
            cancelled = [o[1] for o in seg if o[0] == "cancel"]
            for s in cancelled:
                idx = max(i for i, o in enumerate(seg) if o == ("cancel", s))
                if not any(o == ("sched", s) for o in seg[idx:]):
                    out.append(("the aborted transition cancelled the timers/services of state %d and did not re-arm them" % s, None))
            if post["status"] != 1 and pre["status"] == 1 and not any(o[0] == "done" for o in new):
                out.append(("an aborted transition changed the status to %s" % post["status"], None))
    if not am.legal(snaps[-1]["cfg"]) and snaps[-1]["status"] in (1, 2):
        out.append(("illegal configuration %s at the end of a run with faults" % snaps[-1]["cfg"], None))
    return out[:1]


def family(rng, n, hook):
    cases = common.random_family(rng, n, max_nodes=8, features=dict(faults=True, badtarget=True))
    return [(a, e, r, dict(hook_faults=True) if hook else None) for a, e, r, _ in cases]


def run(rep, ctx):
    rng = random.Random(ctx["seed"] * 7919 + 7)
    big = ctx["tier"] == "thorough"
    dis_all, fail_all = [], []
    fams = [("faults", family(rng, 1000 if big else 220, False),
             "random machines with failing user actions, built-ins whose callback raises, missing actions, missing guards, unresolvable "
             "targets and emit actions; monitor: on_action_error notified, fault = truncation (twin run), aborted transition restores "
             "the configuration and re-arms cancelled tasks"),
            ("hookfaults", family(rng, 700 if big else 160, True),
             "the same with EVERY plugin hook, the subscriber and both emit listeners raising after they recorded: the trace must equal the "
             "model's, which has no hook effects")]
    for name, cases, rule in fams:
        dis, fails, stats = common.run_macro_property(rep, ctx, "c07_" + name, cases, monitor, rule)
        dis_all += dis
        fail_all += fails

    def search(extra):
        _, f2, _ = common.run_macro_property(rep, ctx, "c07_search", family(random.Random(ctx["seed"] + 71), 400, False), monitor, "search: 400 more")
        return f2
    core.decide(rep, ctx["proof"], dis_all, fail_all, search)
    rep.assumptions += ["fault positions are those the generator places (failing / missing / raising-callback actions at random positions of "
                        "entry, exit and transition lists; every hook at once), not an exhaustive enumeration of positions per run"]


def replay(payload):
    return common.replay_macro(payload, monitor)
