"""C03 - exit, then transition, then entry actions; exactly-once accounting; frame."""
from __future__ import annotations

import random

from harness import core
from harness.props import common

LEVEL = "proof"


def mark_map(am):
    mm = {}
    for n in am.nodes:
        for a in n.entry:
            if a[0] in ("mark", "fail"):
                mm[a[1]] = ("entry", n.idx)
        for a in n.exit:
            if a[0] in ("mark", "fail"):
                mm[a[1]] = ("exit", n.idx)
    for t in am.all_trans():
        for a in t.actions:
            if a[0] in ("mark", "fail"):
                mm[a[1]] = ("trans", t.tid)
    return mm


def lca(am, a, b):
    aa = am.anc_self(a)
    for x in am.anc_self(b):
        if x in aa:
            return x
    return 0


def monitor(am, engine, cx, events, snaps):
    out = []
    mm = mark_map(am)
    tmap = {t.tid: t for t in am.all_trans()}
    if any("special" in s for s in snaps):
        return out
    log = snaps[-1]["log"]
    aborted = any(o[0] == "err" for o in log)
    brackets = common.split_by_event(log)
    for bi, (begin, recs) in enumerate(brackets):
        seg = []
        for o in recs:
            if o[0] != "trans":
                if o[0] in ("act", "sched", "cancel", "acterr", "err", "enter", "leave"):
                    seg.append(o)
                continue
            tid = o[1]
            t = tmap.get(tid)
            if any(x[0] == "err" for x in seg):
                seg = []
                continue
            # --- order: exit* transition* entry*
            phase = 0
            order = {"exit": 0, "trans": 1, "entry": 2}
            exits, entries = [], []
            for x in seg:
                if x[0] != "act" or x[1] not in mm:
                    continue
                kind, who = mm[x[1]]
                if order[kind] < phase and tid != 0 and begin is not None:
                    out.append(("%s action m%d ran after a later phase in transition %d" % (kind, x[1], tid), None))
                phase = max(phase, order[kind])
                (exits if kind == "exit" else entries if kind == "entry" else []).append(who)
                # --- event identity
                if begin is not None and tid != 0:
                    exp_ty = "" if (t is not None and t.event == "") else begin[1]
                    exp_tag = 0 if (t is not None and t.event == "") else begin[2]
                    ok_ev = [(exp_ty, exp_tag)]
                    if t is not None and t.event == "":
                        # an eventless transition is also a candidate for the external event itself
                        ok_ev.append((begin[1], begin[2]))
                    if (x[2], x[3]) not in ok_ev and t is not None:
                        out.append(("%s action m%d of transition %d received event (%r, tag %d), expected (%r, tag %d)"
                                    % (kind, x[1], tid, x[2], x[3], exp_ty, exp_tag), None))
            if begin is None:
                exits, entries = [], []   # the initial entry is not delimited by a transition record
            for i, a in enumerate(exits):
                for b in exits[i + 1:]:
                    if b != a and am.is_desc(b, a):
                        out.append(("exit action of %d ran before that of its descendant %d" % (a, b), None))
            for i, a in enumerate(entries):
                for b in entries[i + 1:]:
                    if b != a and am.is_desc(a, b):
                        out.append(("entry action of %d ran before that of its ancestor %d" % (a, b), None))
            # --- frame: nothing outside the subtree of LCA(source, target) is touched
            if begin is not None and t is not None and isinstance(t.target, int) and t.target != 0:
                top = lca(am, t.src, t.target)
                for x in seg:
                    who = x[1] if x[0] in ("sched", "cancel", "enter", "leave") else (mm[x[1]][1] if x[0] == "act" and x[1] in mm and mm[x[1]][0] != "trans" else None)
                    if who is not None and not am.is_desc(who, top):
                        out.append(("transition %d (%d -> %d) touched state %d outside the subtree of their common ancestor %d (%s)"
                                    % (tid, t.src, t.target, who, top, x[0]), None))
                    if who is not None and am.nodes[top].kind == "parallel" and t.src != top and t.target != top:
                        regs = [c for c in am.nodes[top].children if am.is_desc(t.src, c) or am.is_desc(t.target, c)]
                        if am.nodes[t.target].kind.startswith("hist") and am.nodes[t.target].parent == top:
                            # the history child of the common ancestor is not inside any region: it stands for the
                            # remembered configuration of ALL of them, which the transition exits and restores
                            regs = list(am.nodes[top].children)
                        if who != top and not any(am.is_desc(who, r) for r in regs):
                            sig = None
                            out.append(("transition %d (%d -> %d) touched sibling region state %d (%s)" % (tid, t.src, t.target, who, x[0]), sig))
            seg = []
    # --- accounting over the whole run (runs without aborted transitions)
    if not aborted and snaps[-1]["status"] in (1, 2):
        active = set()
        for i, o in enumerate(log):
            if o[0] == "enter":
                if o[1] in active:
                    tid = next((x[1] for x in log[i:] if x[0] == "trans"), None)
                    t = tmap.get(tid)
                    sig = None
                    out.append(("state %d was entered while already active (transition %s)" % (o[1], tid), sig))
                active.add(o[1])
            elif o[0] == "leave":
                if o[1] not in active:
                    out.append(("state %d was exited while not active" % o[1], None))
                active.discard(o[1])
        if active != set(snaps[-1]["cfg"]):
            out.append(("entries minus exits %s do not add up to the final configuration %s" % (sorted(active), snaps[-1]["cfg"]),
                        None))
    out.sort(key=lambda f: f[1] is not None)
    return out[:1]


def families(tier, rng):
    big = tier == "thorough"
    fams = []
    c, n = common.directed_pair_family(rng, 4 if big else 3)
    fams.append(("pairs", c, "every tree with <=%d nodes x every (source,target) pair, entry/exit markers on every state (%d trees)" % (4 if big else 3, n)))
    c, n = common.directed_pair_family(rng, 5 if big else 4, sample=600 if big else 120)
    fams.append(("pairs_s", c, "sampled larger trees x every pair"))
    fams.append(("random", common.random_family(rng, 1200 if big else 240, features=dict(raises=False)),
                 "seeded random machines without raise (so every action's event is the bracket's event)"))
    fams.append(("random_r", common.random_family(rng, 600 if big else 120), "seeded random machines with raise/always/onDone"))
    fams.append(("nested_par", common.nested_parallel_family(rng, 200 if big else 40),
                 "a parallel state holding a nested parallel state with 2-4 equal-depth sub-regions, left by transitions whose domain is the outer parallel state"))
    fams.append(("hist_inside", common.history_inside_family(rng, 240 if big else 40),
                 "a compound / parallel state (also as machine root) with a shallow / deep history child targeted from inside that state and "
                 "from outside: accounting and 'never entered while active' for history targets (shape of former finding F21)"))
    return fams


def run(rep, ctx):
    rng = random.Random(ctx["seed"] * 7919 + 3)
    dis_all, fail_all = [], []
    for name, cases, rule in families(ctx["tier"], rng):
        mon = monitor
        dis, fails, stats = common.run_macro_property(rep, ctx, "c03_" + name, cases, mon, rule)
        dis_all += dis
        fail_all += fails

    def search(extra):
        c, _ = common.directed_pair_family(random.Random(ctx["seed"] + 5), 4, sample=200)
        _, fails, _ = common.run_macro_property(rep, ctx, "c03_search", c, monitor, "search: 200 more 4-node trees x all pairs")
        return fails
    core.decide(rep, ctx["proof"], dis_all, fail_all, search)


def replay(payload):
    return common.replay_macro(payload, monitor)
