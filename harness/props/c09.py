"""C09 - invoked services: one start per activation, one outcome, no zombie results."""
from __future__ import annotations

import itertools
import random

from harness import core
from harness.am import AM, Node, Trans, Invoke
from harness.props import common, c08

LEVEL = "proof"


def service_machine(rng, machine=False):
    tid = itertools.count(1)
    mark = itertools.count(1)
    nodes = [Node(0, "m", None, "compound")]

    def add(parent, key, kind):
        n = Node(len(nodes), key, parent, kind)
        nodes.append(n)
        nodes[parent].children.append(n.idx)
        return n.idx
    idle = add(0, "idle", "atomic"); work = add(0, "work", "atomic"); ok = add(0, "ok", "atomic")
    bad = add(0, "bad", "atomic"); w2 = add(0, "w2", "compound"); w2a = add(w2, "a", "atomic")
    nodes[0].initial = rng.choice([idle, work])
    nodes[w2].initial = w2a
    am = AM(nodes, max_iter=8)
    durs = rng.sample([100, 210, 430, 870], 4)

    def invoke(s, iid, dur, okay, handled, src=1, machine=False):
        inv = Invoke(iid=iid, src=src, dur=dur, ok=okay, val=rng.randint(1, 9), machine=machine)
        inv.ondone = [Trans(next(tid), s, "done.invoke." + iid, ok, actions=[("mark", next(mark))])]
        if handled:
            inv.onerror = [Trans(next(tid), s, "error.platform." + iid, bad, actions=[("mark", next(mark))])]
        nodes[s].invoke.append(inv)
    if machine:
        # the invoked service is a child MACHINE, under an explicit id that differs from the state's id
        invoke(work, "job", durs[0], True, rng.random() < 0.5, machine=True)
    else:
        invoke(work, rng.choice(["job", "m.work"]), durs[0], rng.random() < 0.7, rng.random() < 0.7)
    if rng.random() < 0.4:
        invoke(work, "job2", durs[1], True, True, src=2)                 # two services on one state
    if rng.random() < 0.5:
        # sometimes REUSING the id of the first state's invoke, with a different onError declaration
        invoke(w2, nodes[work].invoke[0].iid if rng.random() < 0.35 else "outer", durs[2], rng.random() < 0.6, rng.random() < 0.5, src=3)
    if rng.random() < 0.08:
        invoke(w2a, "gone", durs[3], True, True, src=0)                  # not registered: fatal at entry
    for s in (idle, work, ok, bad, w2):
        nodes[s].entry = [("mark", next(mark))]
    for ev, tgt in (("IDLE", idle), ("WORK", work), ("W2", w2)):
        nodes[0].on.append((ev, [Trans(next(tid), 0, ev, tgt)]))
    nodes[work].on.append(("RE", [Trans(next(tid), work, "RE", work, reenter=True)]))
    nodes[0].on.append(("SLOW", [Trans(next(tid), 0, "SLOW", None, actions=[("slow", next(mark), rng.choice([150, 250, 450, 950]))])]))
    # exit actions on the invoking state: the state's tasks are cancelled BEFORE its exit actions run, so a service that would
    # complete while a slow exit action is under way never delivers anything (third-round seeded change C09-C swapped the two)
    r = rng.random()
    if r < 0.3:
        nodes[work].exit = [("slow", next(mark), rng.choice([150, 250, 450, 950]))]
    elif r < 0.5:
        nodes[work].exit = [("mark", next(mark))]
    return am


def timed_ops(rng, n_ops):
    ops = []
    t = 0
    for k in range(1, n_ops + 1):
        t += rng.choice([0, 100, 100, 200, 300, 400, 900]) + k
        r = rng.random()
        if r < 0.25:
            evs = []
        elif r < 0.8:
            evs = [(rng.choice(["IDLE", "WORK", "W2", "RE"]), "plain", 100 + k)]
        elif r < 0.88:
            evs = [("SLOW", "plain", 100 + k)]
        else:
            evs = [("SLOW", "plain", 100 + k), ("IDLE", "plain", 200 + k), ("WORK", "plain", 300 + k)]
        ops.append(("at", t, evs))
    return ops


def family(rng, n, engines=("async", "sync"), machine=False):
    cases = []
    for i in range(n):
        am = service_machine(rng, machine)
        runs = [({}, timed_ops(rng, rng.randint(3, 7))) for _ in range(2)]
        cases.append((am, engines[i % len(engines)], runs, None))
    return cases


def monitor(am, engine, cx, events, snaps):
    out = []
    if any("special" in s for s in snaps):
        return out
    if any(o[0] == "err" for o in snaps[0].get("log", [])):
        return out
    tmap = {t.tid: t for t in am.all_trans()}
    inv_of = {}
    for n in am.nodes:
        for inv in n.invoke:
            for t in inv.ondone + inv.onerror:
                inv_of[t.tid] = (n.idx, inv)
    # census: nothing armed for an inactive state
    for sn in snaps:
        stale = [o for o in sn.get("armed", []) if o not in sn["cfg"]]
        if stale and sn["status"] == 1:
            sig = None
            if any(o[0] == "err" for o in sn["log"]):
                sig = dict(kind="leaked-task", cause="rollback-leaves-tasks-of-entered-states")
            out.append(("service/timer tasks still alive for inactive state(s) %s" % sorted(set(stale)), sig))
        if sn["status"] == 3 and not any(o[0] == "fail" for o in sn["log"]):
            out.append(("status is error but no failure was reported", None))
    log = snaps[-1]["log"]
    now = 0
    entered_at, act_no, starts = {}, {}, {}
    entered_before, act_before = {}, {}
    handled_count = {}
    owners = {inv.iid: n.idx for n in am.nodes for inv in n.invoke}
    active = set()
    at_begin_active = set()
    must_fail = None
    cur_begin = 0
    earlier = {}          # owner -> [(entered at, begin of the event during which it was left)] of its finished activations
    for i_, o in enumerate(log):
        if o[0] == "begin" and i_ + 1 < len(log) and log[i_ + 1][0] == "clock":
            now = log[i_ + 1][1]        # the clock stamp of an event follows its `begin` record
        if o[0] == "begin":
            at_begin_active = set(active)
        if o[0] == "err":
            active = set(at_begin_active)        # an aborted transition is rolled back (no enter / leave records for that)
        if o[0] == "clock":
            now = o[1]
        elif o[0] == "enter":
            if o[1] in active and am.nodes[o[1]].invoke:
                out.append(("state %d, which invokes a service, was entered at t=%d while it was already active (no exit in between): its services "
                            "are started a second time within ONE activation, the first call is never cancelled" % (o[1], now), None))
            entered_at[o[1]] = now; act_no[o[1]] = act_no.get(o[1], 0) + 1
            active.add(o[1])
        elif o[0] == "leave":
            active.discard(o[1])
            earlier.setdefault(o[1], []).append((entered_at.get(o[1], 0), cur_begin))
        elif o[0] == "svc":
            # a failure nobody handles puts the machine into the error status (sync engine: the service runs inline)
            cands = [(n.idx, inv) for n in am.nodes for inv in n.invoke if inv.iid == o[1] and n.idx in active and inv.src]
            if engine == "sync" and len(cands) == 1 and not cands[0][1].ok and not cands[0][1].onerror and must_fail is None:
                must_fail = (cands[0][0], o[1])
            key = (o[1], act_no.get(owners.get(o[1]), 0))
            starts[key] = starts.get(key, 0) + 1
            if starts[key] > 1 and sum(1 for n in am.nodes for inv in n.invoke if inv.iid == o[1]) == 1 \
                    and not any(x[0] == "err" for x in log):
                out.append(("service %s started %d times in one activation of its state" % (o[1], starts[key]), None))
        elif o[0] == "begin":
            entered_before, act_before = dict(entered_at), dict(act_no)
            cur_begin = now
            # the failure of a service whose (only active) invoke declares no onError is being delivered: the machine must
            # end up in the error status
            if isinstance(o[1], str) and o[1].startswith("error.platform."):
                iid = o[1][len("error.platform."):]
                cands = [(n.idx, inv) for n in am.nodes for inv in n.invoke if inv.iid == iid and n.idx in active and inv.src]
                if len(cands) == 1 and not cands[0][1].ok and not cands[0][1].onerror and not cands[0][1].machine and must_fail is None \
                        and entered_at.get(cands[0][0]) is not None and now - entered_at[cands[0][0]] >= cands[0][1].dur:
                    # (the active invoke's OWN failure is due: whichever activation this event stems from - see F9 - the
                    #  failure of the active one has happened and nobody handles it)
                    must_fail = (cands[0][0], iid)
        elif o[0] == "trans" and o[1] in inv_of:
            owner, inv = inv_of[o[1]]
            key = (owner, inv.iid, act_before.get(owner, 0))
            handled_count[key] = handled_count.get(key, 0) + 1
            if handled_count[key] > 1:
                out.append(("service %s produced %d handled outcomes in one activation" % (inv.iid, handled_count[key]), None))
            if engine == "async":
                t_enter = entered_before.get(owner)
                if t_enter is not None and now - t_enter < inv.dur:
                    # finding F9 explains this only if some earlier activation had its result ready (queued) when the event that
                    # left it started: then the completion event sat in the queue behind the leave and the re-entry.  A service
                    # that was still running when its state's exit began is cancelled by that exit and must deliver nothing.
                    # (invoke ids may be reused by other states: the event is matched by id only, so any of them can be its origin)
                    queued_before_exit = any(t0 + i2.dur <= tl for n2 in am.nodes for i2 in n2.invoke if i2.iid == inv.iid
                                             for t0, tl in earlier.get(n2.idx, []))
                    # ... and finding F19 explains it if a transition was rolled back earlier in the run: the services started by
                    # the states it had entered are not cancelled by the rollback (no `leave` is ever recorded for them) and
                    # their results arrive later, matched by id only
                    rolled_back = any(x[0] == "err" for x in log[:i_])
                    sig = dict(kind="stale-completion", cause="done-invoke-matched-by-src-and-type-only") if queued_before_exit else \
                        (dict(kind="leaked-task", cause="rollback-leaves-tasks-of-entered-states") if rolled_back else None)
                    out.append(("the completion of service %s (takes %d ms) was handled at t=%d although its state %d was (re-)entered at "
                                "t=%d: the result belongs to an earlier activation%s"
                                % (inv.iid, inv.dur, now, owner, t_enter,
                                   "" if queued_before_exit else (" of a state entered by a transition that was rolled back" if rolled_back else
                                                                  " that was still running when it was exited (exit cancels the service)")),
                                sig))
    if must_fail is not None and snaps[-1]["status"] == 1 and not any(o[0] == "err" for o in log):
        out.append(("service %s of state %d failed and its invoke declares no onError, but the machine is still running: an unhandled "
                    "service failure must put the machine into the error status" % (must_fail[1], must_fail[0]), None))
    out.sort(key=lambda f: f[1] is not None)
    return out[:1]


def region_machine(rng):
    """an invoke declared on a REGION node (a direct child of a parallel state), and transitions whose domain is the parallel state
    itself - declared on the parallel node, or crossing over from the sibling region - into a state strictly inside that region: the
    region is left and entered again, so its service is cancelled and started afresh, once.  (Sixth-round seeded change C09-D no longer
    exited the region node: it was entered a second time while active and its service ran twice in one activation.)"""
    tid = itertools.count(1)
    mark = itertools.count(1)
    nodes = [Node(0, "m", None, "compound")]

    def add(parent, key, kind):
        n = Node(len(nodes), key, parent, kind)
        nodes.append(n)
        nodes[parent].children.append(n.idx)
        return n.idx
    p = add(0, "p", "parallel"); out_ = add(0, "out", "atomic"); ok = add(0, "ok", "atomic"); bad = add(0, "bad", "atomic")
    r1 = add(p, "r1", "compound"); x = add(r1, "x", "atomic"); y = add(r1, "y", "atomic")
    r2 = add(p, "r2", "compound"); u = add(r2, "u", "atomic"); v = add(r2, "v", "atomic")
    nodes[0].initial = p; nodes[r1].initial = x; nodes[r2].initial = u
    am = AM(nodes, max_iter=8)
    durs = rng.sample([100, 210, 430, 870], 4)
    inv = Invoke(iid="job", src=1, dur=durs[0], ok=rng.random() < 0.8, val=rng.randint(1, 9), machine=False)
    inv.ondone = [Trans(next(tid), r1, "done.invoke.job", rng.choice([y, ok]), actions=[("mark", next(mark))])]
    if rng.random() < 0.7:
        inv.onerror = [Trans(next(tid), r1, "error.platform.job", bad, actions=[("mark", next(mark))])]
    nodes[r1].invoke.append(inv)
    if rng.random() < 0.5:
        inv2 = Invoke(iid="side", src=2, dur=durs[1], ok=True, val=rng.randint(1, 9), machine=False)
        inv2.ondone = [Trans(next(tid), r2, "done.invoke.side", v, actions=[("mark", next(mark))])]
        nodes[r2].invoke.append(inv2)
    for s_ in (r1, r2, x, y, out_):
        nodes[s_].entry = [("mark", next(mark))]
    nodes[p].on.append(("IN", [Trans(next(tid), p, "IN", y)]))                      # declared on the parallel node, into region r1
    nodes[u].on.append(("CROSS", [Trans(next(tid), u, "CROSS", rng.choice([x, y]))]))  # from the sibling region
    nodes[x].on.append(("STEP", [Trans(next(tid), x, "STEP", y)]))                  # inside the region: nothing restarts
    nodes[0].on.append(("OUT", [Trans(next(tid), 0, "OUT", out_)]))
    nodes[0].on.append(("BACK", [Trans(next(tid), 0, "BACK", p)]))
    nodes[0].on.append(("SLOW", [Trans(next(tid), 0, "SLOW", None, actions=[("slow", next(mark), rng.choice([150, 450]))])]))
    return am


def region_family(rng, n, engines=("async", "sync")):
    cases = []
    for i in range(n):
        am = region_machine(rng)
        runs = []
        for _ in range(2):
            ops, t = [], 0
            for k in range(1, rng.randint(3, 6) + 1):
                t += rng.choice([40, 90, 110, 220, 440, 900]) // 10 * 10 + k
                r = rng.random()
                evs = [] if r < 0.15 else [(rng.choice(["IN", "CROSS", "STEP", "OUT", "BACK", "IN", "CROSS", "SLOW"]), "plain", 100 + k)]
                ops.append(("at", t, evs))
            runs.append(({0: 0}, ops))
        cases.append((am, engines[i % len(engines)], runs, None))
    return cases


def run(rep, ctx):
    rng = random.Random(ctx["seed"] * 7919 + 9)
    big = ctx["tier"] == "thorough"
    dis, fails, stats = common.run_macro_property(
        rep, ctx, "c09_services", family(rng, 900 if big else 200), monitor,
        "service machines: 1-2 services on a state, a service on a compound state, returning / raising, with and without onError, "
        "(rarely) unregistered; driven on the virtual clock: leave / re-enter / reenter-self before, at and after completion, waits, slow "
        "actions spanning the completion with leave / come-back queued behind them; async engine (tasks) and sync engine (inline call)")

    # the invoked service is a child MACHINE (async engine): same bookkeeping, the task manages a child interpreter
    dis2, fails2, _ = common.run_macro_property(
        rep, ctx, "c09_machines", family(rng, 300 if big else 60, engines=("async",), machine=True), monitor,
        "the same service machines with the first service being a child machine invoked under an explicit id that differs from its "
        "state's id (async engine): left / re-entered before the child reaches its final state")
    dis += dis2
    fails += fails2
    dis3, fails3, _ = common.run_macro_property(
        rep, ctx, "c09_regions", region_family(rng, 240 if big else 60), monitor,
        "an invoke on a REGION node of a parallel state; transitions whose domain is the parallel state (declared on it, or crossing over from "
        "the sibling region) into a state strictly inside that region, steps inside the region, leaving and coming back: the region's service "
        "is cancelled and restarted exactly when the region is left and entered again")
    dis += dis3
    fails += fails3

    def search(extra):
        _, f2, _ = common.run_macro_property(rep, ctx, "c09_search", family(random.Random(ctx["seed"] + 91), 300), monitor, "search: 300 more")
        _, f3, _ = common.run_macro_property(rep, ctx, "c09_search_m", family(random.Random(ctx["seed"] + 92), 100, engines=("async",), machine=True),
                                             monitor, "search: 100 more with child machines")
        return f2 + f3
    core.decide(rep, ctx["proof"], dis, fails, search)
    rep.assumptions += ["services are Recorder callables / coroutine functions with a fixed duration and outcome, or (async engine) a child "
                        "machine that reaches its final state after that duration", "input passing is checked by the Recorder (payload of the invoke event)"]


def replay(payload):
    return common.replay_macro(payload, monitor)
