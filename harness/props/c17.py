"""C17 - code generator: the output rebuilds the source machine exactly, or nothing is written."""
from __future__ import annotations

import ast
import json
import logging
import os
import random
import re
import shutil
import subprocess
import tempfile

from harness import core, tomodel
from harness.props import c18

LEVEL = "translation_validation"
TEMPLATES = ["class-json", "function-json", "pythonic-class", "pythonic-builder", "pythonic-functional"]
PY = "/venv/bin/python"
SCRATCH = os.path.join(core.BUILD, "scratch")
PWN = "XSM_VERIF_PWNED"

HOSTILE = ['a"; open("%s","w"); "' % PWN, "b'); open('%s','w'); ('" % PWN, "c\nopen('%s','w')\n" % PWN, "class", "None", "d'''+open('%s','w')+'''" % PWN,
           "e\\", "f{open('%s','w')}" % PWN, "__import__", "g h", "1st", "def", "é", "x.y", "lambda: 0", "\"\"\"", "#hash"]


def hostile_config(rng):
    names = rng.sample(HOSTILE, 6)
    acts = ["act " + names[0], names[1]]
    return {"id": rng.choice(["m", "machine " + names[2][:6], "M1"]), "initial": "s0", "context": {"k": names[3]},
            "states": {"s0": {"entry": [acts[0]], "on": {"EV " + names[4][:8]: {"target": "s1", "guard": "g " + names[5], "actions": [acts[1]]}},
                              "tags": [names[0][:10]], "meta": {"note": names[1]}},
                       "s1": {"invoke": {"src": "svc " + names[2], "id": "inv", "onDone": "s0"}, "on": {"BACK": "s0"}}}}


def plain_config(rng):
    """Configs inside what the pythonic emitters claim to model: hierarchy, parallel, history, final, after, always,
    invoke with handlers, tags, meta, context, string / composite / parameterised / stateIn guards, actions with
    params - with globally unique state keys and absolute or sibling targets."""
    keys = ["idle", "load", "work", "done", "fail", "wait", "left", "right", "deep", "hist", "aux", "end"]
    rng.shuffle(keys)
    it = iter(keys)
    mid = rng.choice(["flow", "Order", "m_1"])
    all_ids = []

    def guard():
        r = rng.random()
        if r < 0.4:
            return rng.choice(["isReady", "can_go", "hasItems"])
        if r < 0.55:
            return {"type": rng.choice(["and", "or"]), "params": {"guards": [rng.choice(["isReady", "can_go"]), {"type": "not", "params": {"guard": "hasItems"}}]}}
        if r < 0.7:
            return {"type": rng.choice(["and", "or"]), "children": [rng.choice(["isReady", "can_go"]), "hasItems"]}
        if r < 0.85:
            return {"type": "limit", "params": {"max": rng.randint(1, 9)}}
        return {"type": "stateIn", "params": {"state": "#" + mid}}

    def action():
        r = rng.random()
        if r < 0.6:
            return rng.choice(["log_it", "notify", "bump"])
        if r < 0.8:
            return {"type": "notify", "params": {"level": rng.choice(["info", "warn"]), "n": rng.randint(0, 3)}}
        return {"type": "xstate.assign", "params": {"assignment": {"count": rng.randint(0, 5)}}}

    def trans(pool):
        t = {}
        if pool and rng.random() < 0.85:
            t["target"] = "#" + rng.choice(pool)
        if rng.random() < 0.4:
            t["guard"] = guard()
        if rng.random() < 0.5 or not t:
            t["actions"] = [action() for _ in range(rng.choice([1, 1, 2]))]
        if "target" in t and rng.random() < 0.1:
            t["reenter"] = True
        return t

    def state(depth, path):
        sid = path
        all_ids.append(sid)
        d = {}
        r = rng.random()
        if depth < 2 and r < 0.3:
            kids = [next(it) for _ in range(2)]
            d["initial"] = kids[0]
            d["states"] = {k: state(depth + 1, path + "." + k) for k in kids}
            if rng.random() < 0.4:
                hk = next(it)
                d["states"][hk] = {"type": "history", "history": rng.choice(["shallow", "deep"])}
        elif depth < 2 and r < 0.45:
            kids = [next(it) for _ in range(2)]
            d["type"] = "parallel"
            d["states"] = {k: state(depth + 1, path + "." + k) for k in kids}
        if rng.random() < 0.3:
            d["entry"] = [action()]
        if rng.random() < 0.2:
            d["exit"] = [action()]
        if rng.random() < 0.25:
            d["tags"] = [rng.choice(["busy", "visible"])]
        if rng.random() < 0.2:
            d["meta"] = {"label": rng.choice(["A", "B"]), "n": rng.randint(0, 3)}
        return d
    tops = [next(it) for _ in range(3)]
    cfg = {"id": mid, "initial": tops[0], "context": {"count": 0}, "states": {k: state(1, mid + "." + k) for k in tops}}
    fin = next(it)
    cfg["states"][fin] = {"type": "final"}
    all_ids.append(mid + "." + fin)

    def decorate(d, path):
        if d.get("type") in ("final", "history"):
            return
        on = {}
        for ev in rng.sample(["GO", "STOP", "RETRY", "TICK", "job.done"], rng.choice([0, 1, 2])):
            on[ev] = [trans(all_ids)] if rng.random() < 0.7 else [trans(all_ids), trans(all_ids)]
        if on:
            d["on"] = on
        if rng.random() < 0.15:
            d["after"] = {str(rng.choice([100, 250, 1000])): [trans(all_ids)]}
        if rng.random() < 0.1:
            d["always"] = [dict(trans(all_ids), guard=guard())]
        if rng.random() < 0.15:
            d["invoke"] = {"src": rng.choice(["fetchUser", "save"]), "id": rng.choice(["inv1", path.split(".")[-1]]),
                           "onDone": [trans(all_ids)], "onError": [trans(all_ids)]}
        for k, c in (d.get("states") or {}).items():
            decorate(c, path + "." + k)
    for k, c in cfg["states"].items():
        decorate(c, mid + "." + k)
    return cfg


def run_cli(args, env_seed, cwd):
    env = dict(os.environ, PYTHONPATH=core.REPO + "/src:" + core.ROOT, PYTHONHASHSEED=str(env_seed))
    p = subprocess.run([PY, "-m", "xstate_statemachine.cli", "generate-template"] + args, cwd=cwd, env=env, capture_output=True, text=True, timeout=120)
    return p.returncode, (p.stdout + p.stderr)[-600:]


def py_files(d):
    return sorted(f for f in os.listdir(d) if f.endswith(".py")) if os.path.isdir(d) else []


def gen_case(args):
    cfg, template, amode, fc, seed = args
    logging.disable(logging.CRITICAL)
    os.makedirs(SCRATCH, exist_ok=True)
    work = tempfile.mkdtemp(prefix="c17_", dir=SCRATCH)
    res = dict(template=template, amode=amode, fc=fc, problems=[], tree=None, rc=None)
    try:
        src = os.path.join(work, "machine.json")
        json.dump(cfg, open(src, "w"))
        out1, out2 = os.path.join(work, "o1"), os.path.join(work, "o2")
        os.makedirs(out1); os.makedirs(out2)
        base = [src, "-t", template, "-fc", str(fc), "-am", amode, "-f", "--sleep", "no"]
        rc, log = run_cli(base + ["-o", out1], 11, work)
        res["rc"] = rc
        files = py_files(out1)
        if rc != 0:
            if files:
                res["problems"].append(("refused-but-wrote", "the CLI exited %d but wrote %s" % (rc, files)))
            return res
        if not files:
            res["problems"].append(("exit0-wrote-nothing", "the CLI exited 0 and wrote no file: " + log[-200:]))
            return res
        for f in files:
            try:
                ast.parse(open(os.path.join(out1, f), encoding="utf-8").read())
            except SyntaxError as exc:
                res["problems"].append(("invalid-python", "%s is not valid Python: line %s: %s" % (f, exc.lineno, exc.msg)))
                return res
        # regeneration in another process (another hash seed) is byte-identical; --check sees no drift
        rc2, log2 = run_cli(base + ["-o", out2], 22, work)
        for f in files:
            a = open(os.path.join(out1, f), "rb").read()
            b = open(os.path.join(out2, f), "rb").read() if os.path.exists(os.path.join(out2, f)) else None
            if a != b:
                res["problems"].append(("not-byte-identical", "regenerating %s from unchanged input in another process gives different bytes" % f))
        rc3, log3 = run_cli(base + ["-o", out1, "--check"], 33, work)
        if rc3 != 0:
            res["problems"].append(("check-reports-drift", "--check on freshly generated output exits %d: %s" % (rc3, log3[-200:])))
        # import in a fresh process, build, extract
        logic_mod = [f[:-3] for f in files if f.endswith("_logic.py")] or [files[0][:-3]]
        env = dict(os.environ, PYTHONPATH=core.REPO + "/src:" + core.ROOT, PYTHONHASHSEED="44")
        p = subprocess.run([PY, "-m", "harness.gen_driver", out1, logic_mod[0], template, src], cwd="/verif", env=env, capture_output=True, text=True, timeout=120)
        line = p.stdout.strip().splitlines()[-1] if p.stdout.strip() else ""
        try:
            d = json.loads(line)
        except Exception:  # noqa
            res["problems"].append(("driver-failed", "importing the generated module failed: " + (p.stderr or p.stdout)[-300:]))
            return res
        if os.path.exists(os.path.join(out1, PWN)) or os.path.exists(os.path.join("/verif", PWN)) or os.path.exists(os.path.join(work, PWN)):
            res["problems"].append(("string-became-code", "a string of the JSON was executed as code when the generated module was imported"))
            for q in (out1, "/verif", work):
                try:
                    os.remove(os.path.join(q, PWN))
                except OSError:
                    pass
        if not d.get("ok"):
            res["problems"].append(("generated-does-not-build", d.get("error", "?")))
            return res
        if d.get("stdout_on_import") or d.get("new_files"):
            res["problems"].append(("import-side-effect", "importing the generated module printed %r / created %r" % (d.get("stdout_on_import"), d.get("new_files"))))
        ub = d.get("unbound", {})
        if not template.startswith("pythonic") and any(ub.values()):
            res["problems"].append(("logic-not-bound", "the generated logic does not bind %s" % ub))

        def tup(t):
            return (t[0], [tup(k) for k in t[1]])
        res["tree"] = tup(d["tree"])
        return res
    except subprocess.TimeoutExpired:
        res["problems"].append(("timeout", "a CLI / import subprocess did not finish in 120 s"))
        return res
    finally:
        shutil.rmtree(work, ignore_errors=True)


F17_TREE = dict(kind="generated-differs", cause="guard-params-or-operands-dropped")
F17_BIND = dict(kind="logic-not-bound", cause="guards-nested-in-composites-not-stubbed")


F17_IDENT = dict(kind="logic-not-bound", cause="name-is-not-a-python-identifier")
F17_ONDONE = dict(kind="logic-not-bound", cause="names-only-in-state-onDone-not-stubbed")
F17_ACRONYM = dict(kind="logic-not-bound", cause="camel-snake-round-trip-loses-acronym-capitals")


def roundtrips(name):
    """does the generator's camelCase -> snake_case stub name map back, by the loader's snake_case -> camelCase rule,
    to the name the machine references?  ('dialogIsCCIOrAdminPaywall' -> 'dialog_is_cci_or_admin_paywall' ->
    'dialogIsCciOrAdminPaywall' does not)"""
    from xstate_statemachine.cli.utils import camel_to_snake
    from xstate_statemachine.logic_loader import _snake_to_camel
    sn = camel_to_snake(name)
    return sn == name or _snake_to_camel(sn) == name


def occurrences(v, name, path=()):
    if isinstance(v, dict):
        for k, x in v.items():
            yield from occurrences(x, name, path + (k,))
    elif isinstance(v, list):
        for i, x in enumerate(v):
            yield from occurrences(x, name, path + (i,))
    elif v == name:
        yield path


def bind_signature(cfg, what):
    """Which known gap of the JSON templates' name extraction explains a missing stub, if any."""
    m = re.search(r"ImplementationMissingError: (Guard|Action|Service) '(.*)' is defined in the machine", what, re.S)
    if not m:
        return None
    kind, name = m.group(1), m.group(2)
    import keyword
    if not name.isidentifier() or keyword.iskeyword(name) or name.startswith("__"):
        return F17_IDENT
    try:
        if not roundtrips(name):
            return F17_ACRONYM
    except Exception:
        pass
    occ = list(occurrences(cfg, name))
    if not occ:
        return None

    def in_state_ondone(p):
        return "onDone" in p and "invoke" not in p[:p.index("onDone")]

    def in_composite(p):
        return any(k in ("children", "guards") for k in p) or (len(p) >= 2 and p[-1] == "guard" and p[-2] == "params")
    if all(in_state_ondone(p) for p in occ):
        return F17_ONDONE
    if kind == "Guard" and all(in_composite(p) or in_state_ondone(p) for p in occ):
        return F17_BIND
    return None


def classify(diffs):
    """-> (known-finding signature or None, the first difference that is NOT explained by a known finding or None)"""
    # (a guard that differs is recorded finding F17 only if the generated guard is the source guard with params / operands DROPPED)
    unexplained = [d for d in diffs if not (d[0] and d[0][-1] == "guard" and len(d) > 3 and d[3])]
    if unexplained:
        return None, unexplained[0]
    return (F17_TREE if diffs else None), None


def configs(rng, n, n_corpus):
    out = [("family", c) for c in c18.machine_family(rng, n // 2)]
    out += [("plain", plain_config(rng)) for _ in range(n * 2)]
    out += [("hostile", hostile_config(rng)) for _ in range(max(3, n // 6))]
    out += [("invoke-id", {"id": "profile", "initial": "idle", "states": {
        "idle": {"on": {"LOAD": "loading"}},
        "loading": {"invoke": {"src": "fetchUser", "id": "loading", "onDone": "ready", "onError": "idle"}},
        "ready": {}}, "on": {"done.invoke.loading": ".ready"}})]
    # composite guards nested inside a composite of the SAME operator (fifth-round seeded change C17-C flattened them "for
    # readability": and(and(a,b),c) stays equivalent, not(not(x)) becomes not(x)), operands spelled under params.guards
    def same_op(op, inner):
        return {"type": op, "params": {"guards": [{"type": op, "params": {"guards": inner}}] + ([] if op == "not" else ["gZ"])}}
    out += [("nested-same-operator", {"id": "door", "initial": "closed", "states": {
        "closed": {"on": {"PUSH": [{"target": "open", "guard": same_op("not", ["gA"])}, {"target": "jammed"}],
                          "PULL": [{"target": "open", "guard": same_op("and", ["gA", "gB"])}, {"target": "jammed"}],
                          "KICK": [{"target": "open", "guard": same_op("or", ["gA", "gB"])},
                                   {"target": "jammed", "guard": {"type": "not", "params": {"guards": [same_op("not", ["gB"])]}}}]}},
        "open": {"on": {"PUSH": "closed"}}, "jammed": {}}})]
    out += [("no-target", {"id": "pure", "initial": "only", "states": {"only": {"on": {
        "B": {"actions": "b"}, "A": {"actions": "a"}, "D": {"actions": "d"}, "C": {"actions": "c"}, "E": {"actions": "e"}}}}})]
    corpus = c18.corpus_configs(None)
    rng.shuffle(corpus)
    out += [("stately:" + name, c) for name, c in corpus[:n_corpus]]
    return out


def run(rep, ctx):
    from concurrent.futures import ProcessPoolExecutor
    rng = random.Random(ctx["seed"] * 7919 + 17)
    big = ctx["tier"] == "thorough"
    cfgs = configs(rng, 30 if big else 14, 60 if big else 12)
    jobs, meta = [], []
    for kind, cfg in cfgs:
        combos = [(t, am, fc) for t in TEMPLATES for am in ("yes", "no") for fc in (1, 2)]
        if not big:
            combos = rng.sample(combos, 4) if kind not in ("invoke-id", "no-target") else [(t, "no", 2) for t in TEMPLATES]
        elif kind.startswith("stately:"):
            combos = rng.sample(combos, 8)       # thorough: every combination for the generated families, 8 per corpus export
        for t, am, fc in combos:
            jobs.append((cfg, t, am, fc, rng.randrange(1 << 30)))
            meta.append(kind)
    with ProcessPoolExecutor(max_workers=14) as ex:
        results = list(ex.map(gen_case, jobs, chunksize=1))
    failures, disagreements = [], []
    pairs = []
    stats = dict(exit0=0, refused=0, by_template={}, problems={})
    src_tree = {}
    src_ok = {}
    for (cfg, t, am, fc, _), kind, r in zip(jobs, meta, results):
        key = core.case_hash(cfg)
        stats["by_template"][t] = stats["by_template"].get(t, 0) + 1
        if r["rc"] == 0:
            stats["exit0"] += 1
        else:
            stats["refused"] += 1
        for code, what in r["problems"]:
            stats["problems"][code] = stats["problems"].get(code, 0) + 1
            if code == "generated-does-not-build" and not t.startswith("pythonic") and "InvalidConfigError" in what:
                # the JSON templates load the SOURCE json: when create_machine() rejects that json itself (a Stately export
                # without 'states', say) there is no machine whose names the generated logic could bind - not judged
                if key not in src_ok:
                    try:
                        c18.build(cfg)
                        src_ok[key] = True
                    except Exception:  # noqa
                        src_ok[key] = False
                if not src_ok[key]:
                    stats["problems"]["source-json-rejected-by-create_machine"] = stats["problems"].get("source-json-rejected-by-create_machine", 0) + 1
                    continue
            sig = bind_signature(cfg, what) if (code == "generated-does-not-build" and not t.startswith("pythonic")) else None
            failures.append(dict(case=dict(kind="generate", cfg=cfg, template=t, async_mode=am, file_count=fc, family=kind),
                                 what="%s (-t %s -am %s -fc %d): %s" % (code, t, am, fc, what), signature=sig))
        if r["tree"] is not None:
            if key not in src_tree:
                try:
                    src_tree[key] = tomodel.deep(c18.build(cfg))
                except Exception as exc:  # noqa
                    src_tree[key] = None
            if src_tree[key] is not None:
                pairs.append((src_tree[key], r["tree"], cfg, t, am, fc, kind))
    shard = 30
    cj = []
    for j in range(0, len(pairs), shard):
        part = pairs[j:j + shard]
        text = "From XSM Require Import Model.Generic.\nEval vm_compute in bad_pairs %s.\n" % core.cl(
            "(%s, %s)" % (tomodel.to_coq(p[0]), tomodel.to_coq(p[1])) for p in part)
        cj.append(("c17_eq_%03d" % (j // shard), text))
    outs = core.coq_eval_many(cj, par=14)
    certified = 0
    for (jn, _), j in zip(cj, range(0, len(pairs), shard)):
        rc, out, _ = outs[jn]
        body = re.sub(r"\s+", "", out[out.find("="):]) if rc == 0 else ""
        m = re.match(r"=\[([0-9;]*)\]", body)
        if rc != 0 or not m:
            disagreements.append(dict(component="tree-equality", case=None, impl=None, model="coqc failed: " + out[-400:]))
            continue
        bad = [int(x) for x in re.findall(r"\d+", m.group(1))]
        certified += len(pairs[j:j + shard]) - len(bad)
        for b in bad:
            a, g, cfg, t, am, fc, kind = pairs[j + b]
            diffs = tomodel.all_diffs(a, g)
            sig, other = classify(diffs)
            d = other or (diffs[0] if diffs else None)
            failures.append(dict(case=dict(kind="generate", cfg=cfg, template=t, async_mode=am, file_count=fc, family=kind),
                                 what="the CLI exited 0 for -t %s but the generated code builds a different machine (%d differences): at %s: source %s, generated %s" % (
                                     t, len(diffs), " / ".join(d[0]) if d else "?", d[1] if d else "?", d[2] if d else "?"),
                                 signature=sig))
    rep.coverage.update(evaluations=len(jobs), distinct_nontrivial=len({core.case_hash(c) for _, c in cfgs}),
                        rule="machine configs (random families with every construct of the abstract machine, hostile / colliding / code-like names, "
                             "an invoke whose id equals its state's key, a machine without targets, Stately exports) x templates x sync/async x "
                             "1-/2-file: the CLI runs in a subprocess; exit != 0 must leave no file; exit 0: every file parses, regeneration under "
                             "another hash seed is byte-identical and --check is silent, importing in a fresh process prints / creates nothing "
                             "and executes no JSON string, the machine built by the generated module is extracted as a labelled tree and "
                             "compared IN COQ with the tree of create_machine(json); JSON templates must bind every referenced name",
                        samples=[dict(stats=stats)] + [dict(template=t, async_mode=am, file_count=fc, family=kind, config=cfg)
                                                      for _, _, cfg, t, am, fc, kind in pairs[:2]],
                        traces_validated_against_impl=len(pairs),
                        programs=len(pairs), disagreements_checked=len(pairs) - certified,
                        components={"tree-equality (Coq)": dict(pairs=len(pairs), certified_equal=certified), "cli": stats})
    core.decide(rep, ctx["proof"], disagreements, failures, None)
    rep.assumptions += ["harness/tomodel.py and harness/gen_driver.py (which finds the machine a generated module builds) are trusted",
                        "text-level clauses (valid Python, no import side effects, strings only as data, byte-identical regeneration, --check) "
                        "are harness checks, not theorems"]


def replay(payload):
    c = payload.get("case") or {}
    if c.get("kind") != "generate":
        print("no concrete case:", payload.get("broken"))
        return 1
    r = gen_case((c["cfg"], c["template"], c["async_mode"], c["file_count"], 0))
    print("cli exit:", r["rc"], "problems:", r["problems"])
    bad = bool(r["problems"])
    if r["tree"] is not None:
        d = tomodel.all_diffs(tomodel.deep(c18.build(c["cfg"])), r["tree"])
        for x in d[:10]:
            print("tree difference:", x)
        bad = bad or bool(d)
    return 1 if bad else 0
