"""C05 - sync, async and pure engines compute the same behaviour."""
from __future__ import annotations

import random
from concurrent.futures import ProcessPoolExecutor

from harness import core, impl, kmacro
from harness.am import ev_coq
from harness.props import common

LEVEL = "proof"


def acts_by_step(snaps):
    """per snapshot: the user actions executed in that step, as (k, event type, tag)"""
    out = []
    prev = 0
    for s in snaps:
        if "special" in s:
            out.append(None)
            continue
        new = s["log"][prev:]
        prev = len(s["log"])
        out.append([(o[1], o[2], o[3]) for o in new if o[0] == "act"])
    return out


def features(am):
    acts = [a for n in am.nodes for a in n.entry + n.exit] + [a for t in am.all_trans() for a in t.actions]
    return dict(raises=any(a[0] == "raise" for a in acts), history=any(n.kind.startswith("hist") for n in am.nodes),
                faults=any(a[0] in ("fail", "bad", "missing") for a in acts))


def three_way(args):
    am, cx, events = args
    seed = kmacro.ctx_seed(cx)
    try:
        s = [common.parse_snapshot(x) for x in impl.run_sync(am, events, seed_ctx=seed)]
        a = [common.parse_snapshot(x) for x in impl.run_async(am, events, seed_ctx=seed)]
        p, problems = impl.run_pure(am, events, seed_ctx=seed)
    except BaseException as exc:
        return dict(error=repr(exc))
    return dict(sync=s, async_=a, pure=p, problems=problems)


def compare(am, cx, events, r):
    out = []
    if "error" in r:
        return [("harness error " + r["error"], None)]
    s, a = r["sync"], r["async_"]
    f = features(am)
    if any("special" in x for x in s + a):
        return out   # termination is C13's business
    # ---- sync vs async at quiescence
    sa, aa = acts_by_step(s), acts_by_step(a)
    for k in range(min(len(s), len(a))):
        ps, pa = s[k], a[k]
        sig = None
        if (ps["cfg"], ps["ctx"], ps["status"], ps["output"]) != (pa["cfg"], pa["ctx"], pa["status"], pa["output"]) \
                or [x[0] for x in sa[k]] != [x[0] for x in aa[k]] or (k > 0 and sa[k] != aa[k]):
            # known: the sync engine keeps processing already-queued events after completion, async strands them
            new_s = ps["log"][len(s[k - 1]["log"]) if k else 0:]
            done_at = next((i for i, o in enumerate(new_s) if o[0] == "done"), None)
            if done_at is not None and any(o[0] == "begin" for o in new_s[done_at:]):
                sig = dict(kind="engines-differ", cause="sync-processes-queue-after-done")
            # known: a bound was hit - the two engines bound different things (per-drain count vs raise chain)
            elif any(o[0] == "cut" for o in ps["log"] + pa["log"]):
                sig = dict(kind="engines-differ", cause="different-bounds-after-cut")
            out.append(("step %d: sync and async engines differ: cfg %s vs %s, ctx %s vs %s, status %s vs %s, actions %s vs %s"
                        % (k, ps["cfg"], pa["cfg"], ps["ctx"], pa["ctx"], ps["status"], pa["status"], sa[k], aa[k]), sig))
            break
    # ---- pure vs sync
    for msg in r["problems"]:
        out.append((msg, None))
    pure = r["pure"]
    for k in range(min(len(pure), len(s))):
        vals = [t[1] for t in pure[k]]
        if vals[:1] == ["err"] or vals[:1] == ["create-error"]:
            break
        i_ctx, i_st, i_act = vals.index("ctx"), vals.index("status"), vals.index("actions")
        pc = (vals[1:i_ctx], vals[i_ctx + 1:i_st], vals[i_st + 1])
        ps = s[k]
        reported = [vals[j + 1] for j in range(i_act + 1, len(vals), 2) if vals[j] == "pact"]
        executed = [x[0] for x in sa[k]]
        if pc != (ps["cfg"], ps["ctx"], ps["status"]) or reported != executed:
            sig = None
            prev_done = k > 0 and s[k - 1]["status"] != 1
            if f["raises"]:
                sig = dict(kind="pure-differs", cause="pure-api-does-not-process-raised-events")
            elif f["history"]:
                sig = dict(kind="pure-differs", cause="pure-api-forgets-history")
            elif prev_done:
                sig = dict(kind="pure-differs", cause="pure-api-reactivates-finished-snapshot")
            elif f["faults"]:
                sig = dict(kind="pure-differs", cause="pure-api-reports-actions-a-run-would-skip")
            elif any(o[0] == "cut" for o in ps["log"]):
                sig = dict(kind="pure-differs", cause="different-bounds-after-cut")
            out.append(("step %d: pure API differs from the sync engine: (cfg, ctx, status) %s vs %s; reported %s vs executed %s"
                        % (k, pc, (ps["cfg"], ps["ctx"], ps["status"]), reported, executed), sig))
            break
    out.sort(key=lambda x: x[1] is not None)
    return out[:2]


def check_pure_vs_model(cases, results, name):
    jobs = []
    shard = 40
    for j in range(0, len(cases), shard):
        text = kmacro.HEADER
        idx = list(range(j, min(j + shard, len(cases))))
        for i in idx:
            am, cx, events = cases[i]
            row = "(%s, %s, %s)" % (kmacro.ctx_coq(cx), core.cl(ev_coq(e) for e in events), core.cl(impl.toks_coq(t) for t in results[i]["pure"]))
            text += "Definition m%d : machine := %s.\nDefinition r%d := check_pure m%d [%s].\n" % (i, am.to_coq(), i, i, row)
        text += "Eval vm_compute in %s.\n" % core.cl("(%d, r%d)" % (i, i) for i in idx)
        jobs.append(("%s_%03d" % (name, j // shard), text))
    outs = core.coq_eval_many(jobs, par=14)
    import re
    dis = []
    n = 0
    for (jn, _), j in zip(jobs, range(0, len(cases), shard)):
        rc, out, _ = outs[jn]
        if rc != 0:
            dis.append(dict(component="K-pure", case=None, impl=None, model="coqc failed: " + out[-600:]))
            continue
        body = re.sub(r"\s+", "", out[out.find("="):])
        found = re.findall(r"\((\d+),\[([0-9;]*)\]\)", body)
        n += len(found)
        for si, sbad in found:
            if sbad:
                am, cx, events = cases[int(si)]
                dis.append(dict(component="K-pure", case=common.case_payload(am, "pure", cx, events), impl=results[int(si)]["pure"],
                                model="Macro.pure_initial / pure_transition differ"))
    return dis, n


def raise_behind_always(rng, n):
    """an event RAISED while a state is entered whose eventless transition is enabled: every engine settles the eventless
    transition first and handles the raised event in the state it leads to (the event is handled differently, or only, there).
    No bound is anywhere near (maxIterations 50), so none of the recorded engine differences applies."""
    import itertools
    from harness.am import AM, Node, Trans
    cases = []
    for i in range(n):
        tid = itertools.count(1)
        mark = itertools.count(1)
        nodes = [Node(0, "m", None, "compound"), Node(1, "a", 0, "atomic"), Node(2, "b", 0, "atomic"), Node(3, "c", 0, "atomic"),
                 Node(4, "x", 0, "atomic"), Node(5, "y", 0, "atomic")]
        nodes[0].children = [1, 2, 3, 4, 5]
        nodes[0].initial = 1
        am = AM(nodes, max_iter=50)
        where = rng.choice(["transition", "entry", "exit"])
        raise_act = ("raise", "E", rng.randint(1, 9))
        go_acts = [("mark", next(mark))] + ([raise_act] if where == "transition" else [])
        nodes[1].on.append(("GO", [Trans(next(tid), 1, "GO", 2, actions=go_acts)]))
        if where == "entry":
            nodes[2].entry = [raise_act]
        if where == "exit":
            nodes[1].exit = [raise_act]
        guard = rng.choice([None, None, ("ge", 0, 1)])
        nodes[2].on.append(("", [Trans(next(tid), 2, "", 3, guard=guard, actions=[("mark", next(mark))])]))
        if rng.random() < 0.7:
            nodes[2].on.append(("E", [Trans(next(tid), 2, "E", 4, actions=[("mark", next(mark))])]))
        nodes[3].on.append(("E", [Trans(next(tid), 3, "E", 5, actions=[("mark", next(mark))])]))
        for s_ in (2, 3, 4, 5):
            nodes[s_].entry = nodes[s_].entry + [("mark", next(mark))]
        for s_ in (4, 5):
            nodes[s_].on.append(("BACK", [Trans(next(tid), s_, "BACK", 1)]))
        events = [("GO", "plain", 1), ("BACK", "plain", 2), ("GO", "plain", 3)]
        cases.append((am, {0: rng.randint(0, 1)}, events))
    return cases


def run(rep, ctx):
    rng = random.Random(ctx["seed"] * 7919 + 5)
    big = ctx["tier"] == "thorough"
    dis_all, fail_all = [], []
    # K-macro for each engine against the model (the engine-specific components)
    fam = common.random_family(rng, 700 if big else 140)
    dis, fails, stats = common.run_macro_property(rep, ctx, "c05_engines_vs_model", fam, lambda *a: [],
                                                  "seeded random machines, each engine against its model (K-macro)")
    dis_all += dis
    # three-way comparison of the implementations with each other, and K-pure
    groups = [("plain", dict(raises=False, history=False), 500 if big else 120),
              ("full", dict(), 500 if big else 120)]
    groups.append(("raise_behind_always", None, 120 if big else 40))
    for gname, feats, n in groups:
        cases = []
        if feats is None:
            cases = raise_behind_always(rng, n)
        else:
            for am, eng, runs, _ in common.random_family(rng, n, features=feats, runs=1, engines=("sync",)):
                cx, events = runs[0]
                cases.append((am, cx, events))
        with ProcessPoolExecutor(max_workers=14) as ex:
            results = list(ex.map(three_way, cases, chunksize=4))
        for (am, cx, events), r in zip(cases, results):
            for what, sig in compare(am, cx, events, r):
                fail_all.append(dict(case=common.case_payload(am, "sync+async+pure", cx, events), what=what, signature=sig))
        ok = [(c, r) for c, r in zip(cases, results) if "pure" in r]
        d, npure = check_pure_vs_model([c for c, _ in ok], [r for _, r in ok], "c05_pure_" + gname)
        dis_all += d
        rep.coverage.setdefault("components", {})["three-way-" + gname] = dict(cases=len(cases), pure_vs_model=npure, disagreements=len(d))
        rep.coverage["evaluations"] = rep.coverage.get("evaluations", 0) + len(cases)
    def search(cases):
        """a tie broke and the three-way family found nothing: compare the engines with each other on the very runs on
        which an engine left its model - if the engines now disagree there, that run is the failing input"""
        out, seen = [], 0
        for c in cases:
            if not c or "am_b64" not in c:
                continue
            am, cx, events = decode_case(c)
            if any(e[0] in ("at", "start", "stop", "burst") for e in events):
                continue
            r = three_way((am, cx, events))
            for what, sig in compare(am, cx, events, r):
                out.append(dict(case=common.case_payload(am, "sync+async+pure", cx, events), what=what, signature=sig))
            seen += 1
            if seen >= 60:
                break
        return out
    core.decide(rep, ctx["proof"], dis_all, fail_all, search)
    rep.assumptions += ["comparison at quiescence; the start-up entry event differs by design between engines (entry.<id> vs init) and is projected away",
                        "'plain' group: no raise, no history - pure API must agree exactly; 'full' group: documented pure-API gaps are findings"]


def decode_case(case):
    import base64, pickle
    am = pickle.loads(base64.b64decode(case["am_b64"]))

    def _ev(e):
        if e[0] == "burst":
            return ("burst", [_ev(x) for x in e[1]])
        if e[0] == "at":
            return ("at", e[1], [_ev(x) for x in e[2]])
        if e[0] in ("start", "stop"):
            return (e[0],)
        return (e[0], e[1] if isinstance(e[1], str) else tuple(e[1]), e[2])
    events = [_ev(e) for e in case["events"]]
    cx = {int(k): v for k, v in (case.get("ctx") or {}).items()}
    return am, cx, events


def replay(payload):
    case = payload.get("case") or (payload.get("first_disagreement") or {}).get("case")
    if not case or "am_b64" not in case:
        print("no concrete case:", payload.get("broken"))
        return 1
    am, cx, events = decode_case(case)
    r = three_way((am, cx, events))
    for k in ("sync", "async_"):
        for i, s in enumerate(r.get(k, [])):
            print(k, i, s if "special" in s else (s["cfg"], s["ctx"], s["status"], [o for o in s["log"] if o[0] == "act"][-8:]))
    for i, s in enumerate(r.get("pure", [])):
        print("pure", i, " ".join(str(t[1]) for t in s))
    bad = compare(am, cx, events, r)
    for b in bad:
        print("MONITOR:", b)
    return 1 if bad else 0
