"""C12 - snapshots are faithful, isolated resume points."""
from __future__ import annotations

import json
import random
import re
from concurrent.futures import ProcessPoolExecutor

from harness import core, impl, kmacro
from harness.am import op_coq
from harness.props import common, c11, c10

LEVEL = "proof"


def one(args):
    am, engine, cx, events, k = args
    try:
        return impl.run_restored(am, engine, events, k, seed_ctx=kmacro.ctx_seed(cx))
    except BaseException as exc:
        return dict(restored=[[impl.TS("harness-error"), impl.TS(repr(exc)[:100])]], original=[], problems=[])


def project(tokens):
    p = common.parse_snapshot(tokens)
    if "special" in p:
        return p
    return dict(cfg=p["cfg"], ctx=p["ctx"], status=p["status"], output=p["output"], hist=p["hist"], log=p["log"])


def monitor_case(am, engine, cx, events, k, r):
    out = []
    for msg in r["problems"]:
        out.append((msg, None))
    rest, orig = r["restored"][1:], r["original"]
    if not rest or not orig or len(rest) != len(orig):
        return out
    off = r.get("orig_log_offset", 0)
    for i, (a, b) in enumerate(zip(rest, orig)):
        pa, pb = project(a), project(b)
        if "special" in pa or "special" in pb:
            break
        la = [o for o in pa["log"] if o[0] in ("act", "enter", "leave", "trans")]
        lb = [o for o in pb["log"][off:] if o[0] in ("act", "enter", "leave", "trans")]
        if (pa["cfg"], pa["ctx"], pa["status"], pa["output"]) != (pb["cfg"], pb["ctx"], pb["status"], pb["output"]) or la != lb:
            sig = None
            if {p: sorted(v) for p, v in pa["hist"].items()} == {p: sorted(v) for p, v in pb["hist"].items()} \
                    and sorted(map(str, la)) == sorted(map(str, lb)) and pa["cfg"] == pb["cfg"]:
                sig = dict(kind="restore-differs", cause="persisted-history-order")
            out.append(("continuation step %d after restoring the snapshot taken after %d operations differs from the uninterrupted run: "
                        "cfg %s vs %s, ctx %s vs %s, status %s vs %s, actions %s vs %s"
                        % (i, k, pa["cfg"], pb["cfg"], pa["ctx"], pb["ctx"], pa["status"], pb["status"], la[-6:], lb[-6:]), sig))
            break
    out.sort(key=lambda x: x[1] is not None)
    return out[:1]


def corrupt_stream(rng, text):
    d = json.loads(text)
    muts = []
    for key in list(d):
        x = dict(d); del x[key]; muts.append(("drop-" + key, json.dumps(x)))
    for key, val in (("state_ids", 5), ("configuration", "x"), ("context", []), ("status", 7), ("history", [1]), ("configuration", ["m.nope"])):
        x = dict(d); x[key] = val; muts.append(("type-" + key, json.dumps(x)))
    muts += [("truncated", text[: len(text) // 2]), ("not-object", "[1, 2]"), ("empty", "")]
    return muts


def corrupt_check(am):
    """Every corruption must be rejected with a library error (XStateMachineError subclass) or accepted as a snapshot
    that names only real states; never a raw KeyError/TypeError/AttributeError."""
    from xstate_statemachine import create_machine, SyncInterpreter
    from xstate_statemachine.exceptions import XStateMachineError
    rec = impl.Rec(am)
    machine = create_machine(am.to_config(), logic=impl.build_logic(am, rec))
    it = SyncInterpreter(machine).start()
    text = it.get_snapshot()
    it.stop()
    bad = []
    for name, mut in corrupt_stream(None, text):
        try:
            SyncInterpreter.from_snapshot(mut, machine)
        except XStateMachineError:
            pass
        except Exception as exc:
            bad.append((name, type(exc).__name__))
    return bad


def run(rep, ctx):
    rng = random.Random(ctx["seed"] * 7919 + 12)
    big = ctx["tier"] == "thorough"
    fams = common.random_family(rng, 400 if big else 90, features=dict(history=True, delete=True), runs=1) + \
        c11.family(rng, 300 if big else 70) + c10.family(rng, 150 if big else 30)
    jobs = []
    for am, engine, runs, _ in fams:
        cx, events = runs[0]
        for k in sorted(set([0, len(events) // 2, max(0, len(events) - 1), len(events)])):
            jobs.append((am, engine, cx, events, k))
    with ProcessPoolExecutor(max_workers=14) as ex:
        results = list(ex.map(one, jobs, chunksize=4))
    failures, disagreements = [], []
    for (am, engine, cx, events, k), r in zip(jobs, results):
        for what, sig in monitor_case(am, engine, cx, events, k, r):
            failures.append(dict(case=dict(common.case_payload(am, engine, cx, events), cut=k), what=what, signature=sig))
    # K-snap: the snapshot content and the restored continuation against the model
    shard = 30
    cq = []
    ok_jobs = [(j, r) for j, r in zip(jobs, results) if r["restored"] and not any(len(t) == 1 and t[0][1] in ("TIMEOUT",) for t in r["restored"])
               and sum(len(t) for t in r["restored"]) < 20000 and r["restored"][0][0][1] != "harness-error"]
    for j0 in range(0, len(ok_jobs), shard):
        text = kmacro.HEADER
        idx = list(range(j0, min(j0 + shard, len(ok_jobs))))
        for i in idx:
            (am, engine, cx, events, k), r = ok_jobs[i]
            row = "(%s, %d, %s, %s)" % (kmacro.ctx_coq(cx), k, core.cl(op_coq(e) for e in events), core.cl(impl.toks_coq(t) for t in r["restored"]))
            text += "Definition m%d : machine := %s.\nDefinition r%d := check_snap %s m%d [%s].\n" % (
                i, am.to_coq(), i, "Sync" if engine == "sync" else "Async", i, row)
        text += "Eval vm_compute in %s.\n" % core.cl("(%d, r%d)" % (i, i) for i in idx)
        cq.append(("c12_snap_%03d" % (j0 // shard), text))
    outs = core.coq_eval_many(cq, par=14)
    nsnap = 0
    for (jn, _), j0 in zip(cq, range(0, len(ok_jobs), shard)):
        rc, out, _ = outs[jn]
        if rc != 0:
            disagreements.append(dict(component="K-snap", case=None, impl=None, model="coqc failed: " + out[-600:]))
            continue
        body = re.sub(r"\s+", "", out[out.find("="):])
        for si, sbad in re.findall(r"\((\d+),\[([0-9;]*)\]\)", body):
            nsnap += 1
            if sbad:
                (am, engine, cx, events, k), r = ok_jobs[int(si)]
                disagreements.append(dict(component="K-snap", case=dict(common.case_payload(am, engine, cx, events), cut=k), impl=r["restored"],
                                          model="Snap.persist / restore + continuation differ"))
    # corrupt snapshots
    bad_corrupt = []
    for am, engine, runs, _ in fams[:40]:
        try:
            for name, exc in corrupt_check(am):
                bad_corrupt.append((name, exc))
                failures.append(dict(case=dict(common.case_payload(am, "sync", {}, []), corruption=name),
                                     what="corrupt snapshot (%s) surfaced as a raw %s instead of a library error" % (name, exc),
                                     signature=dict(kind="corrupt-snapshot-raw-error", cause=name.split("-")[0] + ":" + exc)))
        except Exception:
            pass
    rep.coverage.update(evaluations=len(jobs), distinct_nontrivial=len({core.case_hash([j[0].to_coq(), j[1], j[3], j[4]]) for j in jobs}),
                        rule="random machines with history, history machines and completion machines; for each run the snapshot is taken at "
                             "prefix lengths 0, n/2, n-1, n, restored into a fresh interpreter over a freshly built machine and the "
                             "continuation compared with the uninterrupted run (configurations, context, status, output, executed actions) and "
                             "with the model (K-snap); JSON validity, isolation from later execution, re-snapshot equality; every single-key "
                             "deletion / wrong-type replacement / truncation of a snapshot must be rejected with a library error",
                        samples=[dict(engine=j[1], events=[list(e) for e in j[3]][:6], cut=j[4],
                                      snapshot=" ".join(str(t[1]) for t in r["restored"][0])[:300]) for j, r in list(zip(jobs, results))[:3]],
                        traces_validated_against_impl=nsnap,
                        components={"K-snap": dict(cases=nsnap, disagreements=len(disagreements)),
                                    "restore-vs-uninterrupted": dict(cases=len(jobs)), "corrupt-stream": dict(machines=40, raw_errors=len(bad_corrupt))})
    core.decide(rep, ctx["proof"], disagreements, failures, None)
    rep.assumptions += ["pending timers and in-flight services are not part of a snapshot (documented); machines here have none",
                        "child actors in snapshots are exercised by C15's check"]


def replay(payload):
    import base64, pickle
    case = payload.get("case")
    if not case or "am_b64" not in case:
        print("no concrete case:", payload.get("broken"))
        return 1
    am = pickle.loads(base64.b64decode(case["am_b64"]))
    def _ev(e):
        return ("burst", [_ev(x) for x in e[1]]) if e[0] == "burst" else (e[0], e[1] if isinstance(e[1], str) else tuple(e[1]), e[2])
    events = [_ev(e) for e in case["events"]]
    cx = {int(k): v for k, v in (case.get("ctx") or {}).items()}
    r = impl.run_restored(am, case["engine"], events, case.get("cut", 0), seed_ctx=kmacro.ctx_seed(cx))
    for name in ("restored", "original"):
        for i, t in enumerate(r[name]):
            print(name, i, " ".join(str(x[1]) for x in t)[:1500])
    bad = monitor_case(am, case["engine"], cx, events, case.get("cut", 0), r)
    for b in bad:
        print("MONITOR:", b)
    return 1 if bad else 0
