"""py2coq: fail-closed translator from a small subset of Python to Gallina.

Tie T of DESIGN.md: the leaf functions named in SPECS are re-read from the
*current* source under /repo on every run, checked against the grammar
below and emitted as Gallina definitions over Model/PyLib.v into
coq/Gen/*.v.  Anything outside the grammar raises Untranslatable with the
offending line: the caller treats that as a broken tie, never as success.

Grammar (statements): docstring / logger.* call (dropped); `x = e`,
`x: T = e`; `x.append(e)`, `x.extend(e)`, `x.sort(key=len, reverse=True)`;
`if` (with or without else; a body ending in return/continue turns the rest
of the block into the else branch); `for v in <list>` with `continue`;
`return e`.
Expressions: names, str/int constants, module-level str constants,
`not`, `and`/`or` (in tests), `==`, `!=`, `in`, `not in`, `+` on str,
`s.startswith(e | (c1, c2, ...))`, `s.endswith(c)`, `s[:-n]`, `s[n:]`,
`len(CONST)`, `[]`, `[e, ...]`.
State nodes (parameter type `node`, read as the node's id string; `opt_node` = Optional[StateNode]): `n.id`,
`n1 == n2` (read as equality of ids: ids are unique, see Tree.ids_distinct), f-strings made of constants and
`{n.id}` / `{str expr}`, and the guard `if not n: return e` on an `opt_node` parameter (becomes a `match`).
"""
from __future__ import annotations

import ast
import hashlib
import os
import textwrap

REPO_SRC = os.environ.get("XSM_REPO_SRC", "/repo/src/xstate_statemachine")


class Untranslatable(Exception):
    pass


def coq_str(s: str) -> str:
    if any(ord(c) > 126 or ord(c) < 32 for c in s):
        raise Untranslatable(f"non-ASCII string constant {s!r}")
    return '"' + s.replace('"', '""') + '"%string'


class Fn:
    """Translate one FunctionDef."""

    def __init__(self, module: ast.Module, fdef: ast.FunctionDef, params, ret, coqname, src_name):
        self.module = module
        self.fdef = fdef
        self.params = params  # list of (pyname, type)
        self.ret = ret
        self.coqname = coqname
        self.src_name = src_name
        self.consts = {}
        for node in module.body:
            tgt = val = None
            if isinstance(node, ast.Assign) and len(node.targets) == 1 and isinstance(node.targets[0], ast.Name):
                tgt, val = node.targets[0].id, node.value
            elif isinstance(node, ast.AnnAssign) and isinstance(node.target, ast.Name) and node.value is not None:
                tgt, val = node.target.id, node.value
            if tgt and isinstance(val, ast.Constant) and isinstance(val.value, str):
                self.consts[tgt] = val.value

    def fail(self, node, why):
        raise Untranslatable(f"{self.src_name}:{getattr(node, 'lineno', '?')}: {why}: {ast.unparse(node)[:80]}")

    # ---------- expressions ----------
    def v(self, name):
        return "v_" + name

    def expr(self, e, env):
        """-> (coq text, type)"""
        if isinstance(e, ast.Name):
            if e.id in env:
                return self.v(e.id), env[e.id]
            if e.id in self.consts:
                return coq_str(self.consts[e.id]), "str"
            self.fail(e, "unknown name")
        if isinstance(e, ast.Attribute) and isinstance(e.value, ast.Name) and e.attr == "id" and env.get(e.value.id) == "node":
            return self.v(e.value.id), "str"
        if isinstance(e, ast.JoinedStr):
            parts = []
            for part in e.values:
                if isinstance(part, ast.Constant) and isinstance(part.value, str):
                    parts.append(coq_str(part.value))
                elif isinstance(part, ast.FormattedValue) and part.conversion == -1 and part.format_spec is None:
                    c, t = self.expr(part.value, env)
                    if t != "str":
                        self.fail(e, "f-string part of type " + t)
                    parts.append(c)
                else:
                    self.fail(e, "f-string part")
            if not parts:
                return coq_str(""), "str"
            return "(" + " ++ ".join(parts) + ")%string", "str"
        if isinstance(e, ast.Constant):
            if isinstance(e.value, str):
                return coq_str(e.value), "str"
            if isinstance(e.value, bool):
                return ("true" if e.value else "false"), "bool"
            if isinstance(e.value, int) and e.value >= 0:
                return str(e.value), "nat"
            self.fail(e, "constant")
        if isinstance(e, ast.List):
            if not e.elts:
                return "(@nil string)", "list_str"
            items = [self.expr(x, env) for x in e.elts]
            if any(t != "str" for _, t in items):
                self.fail(e, "list of non-str")
            return "[" + "; ".join(c for c, _ in items) + "]", "list_str"
        if isinstance(e, ast.IfExp):
            c = self.test(e.test, env)
            a, ta = self.expr(e.body, env)
            b, tb = self.expr(e.orelse, env)
            if ta != tb or ta not in ("str", "bool"):
                self.fail(e, f"conditional expression on {ta},{tb}")
            return f"(if {c} then {a} else {b})", ta
        if isinstance(e, ast.UnaryOp) and isinstance(e.op, ast.Not):
            return f"(negb {self.test(e.operand, env)})", "bool"
        if isinstance(e, ast.BoolOp):
            op = " && " if isinstance(e.op, ast.And) else " || "
            return "(" + op.join(self.test(x, env) for x in e.values) + ")", "bool"
        if isinstance(e, ast.Compare) and len(e.ops) == 1:
            a, ta = self.expr(e.left, env)
            b, tb = self.expr(e.comparators[0], env)
            op = e.ops[0]
            if isinstance(op, (ast.Eq, ast.NotEq)) and ta == tb == "node":
                r = f"(String.eqb {a} {b})"
                return (r if isinstance(op, ast.Eq) else f"(negb {r})"), "bool"
            if isinstance(op, (ast.Eq, ast.NotEq)) and ta == tb == "str":
                r = f"(String.eqb {a} {b})"
                return (r if isinstance(op, ast.Eq) else f"(negb {r})"), "bool"
            if isinstance(op, (ast.In, ast.NotIn)) and ta == "str" and tb in ("keys", "list_str"):
                r = f"(in_list {a} {b})"
                return (r if isinstance(op, ast.In) else f"(negb {r})"), "bool"
            self.fail(e, f"comparison on {ta},{tb}")
        if isinstance(e, ast.BinOp) and isinstance(e.op, ast.Add):
            a, ta = self.expr(e.left, env)
            b, tb = self.expr(e.right, env)
            if ta == tb == "str":
                return f"({a} ++ {b})%string", "str"
            self.fail(e, "+ on non-str")
        if isinstance(e, ast.Call):
            f = e.func
            if isinstance(f, ast.Name) and f.id == "len" and len(e.args) == 1:
                a = e.args[0]
                if isinstance(a, ast.Name) and a.id in self.consts and a.id not in env:
                    return str(len(self.consts[a.id])), "nat"
                self.fail(e, "len of non-constant")
            if isinstance(f, ast.Attribute) and len(e.args) == 1 and not e.keywords:
                recv, tr = self.expr(f.value, env)
                if tr != "str":
                    self.fail(e, "method on non-str")
                arg = e.args[0]
                if f.attr == "startswith":
                    if isinstance(arg, ast.Tuple):
                        items = [self.expr(x, env) for x in arg.elts]
                        if any(t != "str" for _, t in items):
                            self.fail(e, "startswith tuple")
                        return f"(startswith_any {recv} [" + "; ".join(c for c, _ in items) + "])", "bool"
                    a, ta = self.expr(arg, env)
                    if ta != "str":
                        self.fail(e, "startswith arg")
                    return f"(startswith {recv} {a})", "bool"
                if f.attr == "endswith":
                    a, ta = self.expr(arg, env)
                    if ta != "str":
                        self.fail(e, "endswith arg")
                    return f"(endswith {recv} {a})", "bool"
            self.fail(e, "call")
        if isinstance(e, ast.Subscript) and isinstance(e.slice, ast.Slice):
            recv, tr = self.expr(e.value, env)
            sl = e.slice
            if tr != "str" or sl.step is not None:
                self.fail(e, "slice")
            if sl.lower is None and isinstance(sl.upper, ast.UnaryOp) and isinstance(sl.upper.op, ast.USub) \
                    and isinstance(sl.upper.operand, ast.Constant) and isinstance(sl.upper.operand.value, int) \
                    and sl.upper.operand.value > 0:
                return f"(drop_last {sl.upper.operand.value} {recv})", "str"
            if sl.upper is None and sl.lower is not None:
                n, tn = self.expr(sl.lower, env)
                if tn == "nat":
                    return f"(drop_first {n} {recv})", "str"
            self.fail(e, "slice form")
        self.fail(e, "expression")

    def test(self, e, env):
        c, t = self.expr(e, env)
        if t == "bool":
            return c
        if t == "str":
            return f"(truthy_str {c})"
        if t in ("keys", "list_str"):
            return f"(truthy_list {c})"
        self.fail(e, f"truthiness of {t}")

    # ---------- statements ----------
    @staticmethod
    def assigned(stmts):
        out = []
        for s in stmts:
            for n in ast.walk(s):
                name = None
                if isinstance(n, ast.Assign) and len(n.targets) == 1 and isinstance(n.targets[0], ast.Name):
                    name = n.targets[0].id
                elif isinstance(n, ast.AnnAssign) and isinstance(n.target, ast.Name):
                    name = n.target.id
                elif isinstance(n, ast.Expr) and isinstance(n.value, ast.Call) and isinstance(n.value.func, ast.Attribute) \
                        and n.value.func.attr in ("append", "extend", "sort") and isinstance(n.value.func.value, ast.Name):
                    name = n.value.func.value.id
                if name and name not in out:
                    out.append(name)
        return out

    @staticmethod
    def terminates(stmts):
        return bool(stmts) and isinstance(stmts[-1], (ast.Return, ast.Continue))

    def tup(self, names):
        if len(names) == 1:
            return self.v(names[0])
        return "(" + ", ".join(self.v(n) for n in names) + ")"

    def pat(self, names):
        if len(names) == 1:
            return self.v(names[0])
        return "'(" + ", ".join(self.v(n) for n in names) + ")"

    def block(self, stmts, env, k, loop_k=None):
        """Translate stmts; k() gives the text for 'fall off the end';
        loop_k is the text for `continue` (None outside loops)."""
        if not stmts:
            return k(env)
        s, rest = stmts[0], stmts[1:]
        nxt = lambda env2: self.block(rest, env2, k, loop_k)
        if isinstance(s, ast.Expr):
            val = s.value
            if isinstance(val, ast.Constant) and isinstance(val.value, str):
                return nxt(env)  # docstring
            if isinstance(val, ast.Call) and isinstance(val.func, ast.Attribute):
                f = val.func
                if isinstance(f.value, ast.Name) and f.value.id == "logger":
                    return nxt(env)
                if isinstance(f.value, ast.Name) and f.value.id in env and env[f.value.id] == "list_str":
                    x = f.value.id
                    if f.attr == "append" and len(val.args) == 1:
                        a, ta = self.expr(val.args[0], env)
                        if ta != "str":
                            self.fail(s, "append non-str")
                        return f"let {self.v(x)} := ({self.v(x)} ++ [{a}])%list in\n{nxt(env)}"
                    if f.attr == "extend" and len(val.args) == 1:
                        a, ta = self.expr(val.args[0], env)
                        if ta != "list_str":
                            self.fail(s, "extend non-list")
                        return f"let {self.v(x)} := ({self.v(x)} ++ {a})%list in\n{nxt(env)}"
                    if f.attr == "sort" and not val.args:
                        kw = {k_.arg: k_.value for k_ in val.keywords}
                        if set(kw) == {"key", "reverse"} and isinstance(kw["key"], ast.Name) and kw["key"].id == "len" \
                                and isinstance(kw["reverse"], ast.Constant) and kw["reverse"].value is True:
                            return f"let {self.v(x)} := sort_len_rev {self.v(x)} in\n{nxt(env)}"
            self.fail(s, "expression statement")
        if isinstance(s, (ast.Assign, ast.AnnAssign)):
            if isinstance(s, ast.Assign):
                if len(s.targets) != 1 or not isinstance(s.targets[0], ast.Name):
                    self.fail(s, "assignment target")
                name, value = s.targets[0].id, s.value
            else:
                if not isinstance(s.target, ast.Name) or s.value is None:
                    self.fail(s, "assignment target")
                name, value = s.target.id, s.value
            c, t = self.expr(value, env)
            if name in env and env[name] != t and not (env[name] == "keys" and t == "list_str"):
                self.fail(s, f"type change {env[name]} -> {t}")
            env2 = dict(env)
            env2[name] = t
            return f"let {self.v(name)} := {c} in\n{nxt(env2)}"
        if isinstance(s, ast.Return):
            if s.value is None:
                self.fail(s, "bare return")
            if loop_k is not None:
                self.fail(s, "return inside loop")
            c, t = self.expr(s.value, env)
            if t != self.ret and not (t == "list_str" and self.ret == "list_str"):
                self.fail(s, f"return type {t}, expected {self.ret}")
            return c
        if isinstance(s, ast.Continue):
            if loop_k is None:
                self.fail(s, "continue outside loop")
            return loop_k(env)
        if isinstance(s, ast.If) and isinstance(s.test, ast.UnaryOp) and isinstance(s.test.op, ast.Not) \
                and isinstance(s.test.operand, ast.Name) and env.get(s.test.operand.id) == "opt_node":
            # `if not n: return e` on an Optional[StateNode]: None -> e, Some id -> the rest, where n is a node
            if s.orelse or not self.terminates(s.body):
                self.fail(s, "guard on an optional node must be `if not n: return ...`")
            x = s.test.operand.id
            env2 = dict(env)
            env2[x] = "node"
            return (f"match {self.v(x)} with\n| None => ({self.block(s.body, env, k, loop_k)})\n"
                    f"| Some {self.v(x)} => ({self.block(rest, env2, k, loop_k)})\nend")
        if isinstance(s, ast.If):
            c = self.test(s.test, env)
            if self.terminates(s.body) and not s.orelse:
                return f"if {c} then ({self.block(s.body, env, k, loop_k)})\nelse ({nxt(env)})"
            if self.terminates(s.body) and s.orelse and self.terminates(s.orelse):
                if rest:
                    self.fail(s, "unreachable code after if/else")
                return f"if {c} then ({self.block(s.body, env, k, loop_k)})\nelse ({self.block(s.orelse, env, k, loop_k)})"
            if self.terminates(s.orelse):
                self.fail(s, "else branch terminates but then branch does not")
            names = [n for n in self.assigned(s.body + s.orelse) if n in env]
            fresh = [n for n in self.assigned(s.body + s.orelse) if n not in env]
            # fresh locals inside a branch are fine as long as the rest does not use them
            if not names:
                self.fail(s, "if without effect on bound variables")
            kk = lambda env2: self.tup(names)
            then = self.block(s.body, env, kk, loop_k)
            els = self.block(s.orelse, env, kk, loop_k) if s.orelse else self.tup(names)
            return f"let {self.pat(names)} := (if {c} then ({then}) else ({els})) in\n{nxt(env)}"
        if isinstance(s, ast.For):
            if s.orelse or not isinstance(s.target, ast.Name):
                self.fail(s, "for form")
            it, ti = self.expr(s.iter, env)
            if ti not in ("keys", "list_str", "nodes"):
                self.fail(s, "for over non-list")
            elem_t = "node" if ti == "nodes" else "str"
            # `for v in l: if c: return <bool constant>` (nothing else in the loop): the loop leaves the function at the first
            # element that satisfies c, otherwise the rest of the block runs
            if len(s.body) == 1 and isinstance(s.body[0], ast.If) and not s.body[0].orelse and len(s.body[0].body) == 1 \
                    and isinstance(s.body[0].body[0], ast.Return) and isinstance(s.body[0].body[0].value, ast.Constant) \
                    and isinstance(s.body[0].body[0].value.value, bool) and loop_k is None and self.ret == "bool":
                env_b = dict(env)
                env_b[s.target.id] = elem_t
                c = self.test(s.body[0].test, env_b)
                r = "true" if s.body[0].body[0].value.value else "false"
                return f"if (existsb (fun {self.v(s.target.id)} => {c}) {it}) then ({r})\nelse ({nxt(env)})"
            if ti == "nodes":
                self.fail(s, "loop over nodes of another form than `if c: return <bool>`")
            carried = [n for n in self.assigned(s.body) if n in env]
            if not carried:
                self.fail(s, "loop without carried variable")
            env_b = dict(env)
            env_b[s.target.id] = "str"
            kk = lambda env2: self.tup(carried)
            body = self.block(s.body, env_b, kk, kk)
            acc = "acc_" if len(carried) > 1 else self.v(carried[0])
            if len(carried) > 1:
                body = f"let {self.pat(carried)} := acc_ in {body}"
            return (f"let {self.pat(carried)} := fold_left (fun {acc} {self.v(s.target.id)} =>\n{textwrap.indent(body, '    ')})\n"
                    f"  {it} {self.tup(carried)} in\n{nxt(env)}")
        self.fail(s, "statement")

    def translate(self):
        env = {p: t for p, t in self.params}
        args = {a.arg for a in self.fdef.args.args if a.arg not in ("self", "cls")}
        if args != set(env):
            raise Untranslatable(f"{self.src_name}: parameters changed: {sorted(args)} vs {sorted(env)}")
        coqty = {"str": "string", "keys": "list string", "list_str": "list string", "bool": "bool", "nat": "nat",
                 "node": "string", "opt_node": "option string", "nodes": "list string"}
        ps = " ".join(f"({self.v(p)} : {coqty[t]})" for p, t in self.params)

        def off_end(env2):
            raise Untranslatable(f"{self.src_name}: function can fall off the end")

        body = self.block(self.fdef.body, env, off_end)
        return f"Definition {self.coqname} {ps} : {coqty[self.ret]} :=\n{textwrap.indent(body, '  ')}.\n"


SPECS = {
    "GenMatch": [
        dict(file="base_interpreter.py", cls="BaseInterpreter", func="_matching_descriptors",
             coqname="matching_descriptors", params=[("on_map", "keys"), ("event_type", "str")], ret="list_str"),
    ],
    "GenTree": [
        dict(file="base_interpreter.py", cls="BaseInterpreter", func="_is_descendant", coqname="is_descendant",
             params=[("node", "node"), ("ancestor", "opt_node")], ret="bool"),
    ],
    "GenStateIn": [
        dict(file="base_interpreter.py", cls="BaseInterpreter", func="_is_state_in", coqname="state_in_src", slice="slice_state_in",
             params=[("target", "str"), ("active", "nodes")], ret="bool"),
    ],
    "GenSpawn": [
        dict(file="models.py", cls=None, func="is_spawn_action", coqname="is_spawn_action",
             params=[("action_type", "str")], ret="bool"),
        dict(file="models.py", cls=None, func="spawn_service_key", coqname="spawn_service_key",
             params=[("action_type", "str")], ret="str"),
    ],
}


# ---------------------------------------------------------------------------------------------------------------------
# _is_state_in: the built-in `stateIn` guard.  The decoding of `params` (a mapping with `state` / `value`, or a bare string) stays
# with the correspondence; what is translated is everything from the target string on: the empty / non-string target is False, a
# leading '#' is dropped, and the guard holds iff some active state's id IS the target or ENDS with '.' + target.
STATE_IN_PREFIX = ["params = self._resolve_params(guard.params, event)", "target = None",
                   "if isinstance(params, dict):\n    target = params.get('state', params.get('value'))\nelif isinstance(params, str):\n    target = params"]


def slice_state_in(fdef, src):
    body = [st for st in fdef.body if not (isinstance(st, ast.Expr) and isinstance(st.value, ast.Constant))]
    if [ast.unparse(st) for st in body[:3]] != STATE_IN_PREFIX:
        raise Untranslatable(f"{src}: the decoding of the guard's params changed")
    rest = body[3:]
    if not rest or not isinstance(rest[0], ast.If) or ast.unparse(rest[0].test) != "not isinstance(target, str) or not target":
        raise Untranslatable(f"{src}: expected `if not isinstance(target, str) or not target:` after the decoding")
    rest[0] = ast.If(test=ast.parse("not target", mode="eval").body, body=rest[0].body, orelse=rest[0].orelse)

    class Sub(ast.NodeTransformer):
        def visit_Attribute(self, n):
            if ast.unparse(n) == "self._active_state_nodes":
                return ast.Name(id="active", ctx=ast.Load())
            return self.generic_visit(n)
    rest = [Sub().visit(st) for st in rest]
    synth = ast.FunctionDef(name=fdef.name, args=ast.arguments(posonlyargs=[], args=[ast.arg(arg="self"), ast.arg(arg="target"), ast.arg(arg="active")],
                                                                kwonlyargs=[], kw_defaults=[], defaults=[]),
                            body=rest, decorator_list=[], lineno=fdef.lineno)
    ast.fix_missing_locations(synth)
    return synth


def find_func(module, cls, func):
    body = module.body
    if cls:
        for n in body:
            if isinstance(n, ast.ClassDef) and n.name == cls:
                body = n.body
                break
        else:
            raise Untranslatable(f"class {cls} not found")
    for n in body:
        if isinstance(n, (ast.FunctionDef,)) and n.name == func:
            return n
    raise Untranslatable(f"function {func} not found")


def translate_unit(unit, src_root=None):
    src_root = src_root or REPO_SRC
    out = ["(* GENERATED by harness/py2coq.py from the current source tree - do not edit *)",
           "From XSM Require Import Model.PyLib.", ""]
    for spec in SPECS[unit]:
        path = os.path.join(src_root, spec["file"])
        text = open(path, encoding="utf-8").read()
        module = ast.parse(text)
        fdef = find_func(module, spec["cls"], spec["func"])
        seg = ast.get_source_segment(text, fdef) or ""
        digest = hashlib.sha256(seg.encode()).hexdigest()[:16]
        if spec.get("slice"):
            fdef = globals()[spec["slice"]](fdef, f"{spec['file']}:{spec['func']}")
        fn = Fn(module, fdef, spec["params"], spec["ret"], spec["coqname"], f"{spec['file']}:{spec['func']}")
        out.append(f"(* {spec['file']} :: {spec['func']}  sha256[:16]={digest} *)")
        out.append(fn.translate())
    return "\n".join(out)


def regenerate(gen_dir, src_root=None):
    """Write every unit; returns {unit: None | error string}.  A unit that
    fails to translate gets a file that does not compile (fail closed)."""
    os.makedirs(gen_dir, exist_ok=True)
    status = {}
    for unit in SPECS:
        path = os.path.join(gen_dir, unit + ".v")
        try:
            text = translate_unit(unit, src_root)
            status[unit] = None
        except (Untranslatable, SyntaxError, OSError) as exc:
            text = ("(* translation FAILED: %s *)\n" % str(exc).replace("*)", "* )")
                    + "Definition translation_failed : True := untranslatable_source.\n")
            status[unit] = str(exc)
        old = open(path).read() if os.path.exists(path) else None
        if old != text:
            with open(path, "w") as f:
                f.write(text)
    return status


if __name__ == "__main__":
    import sys
    for u in SPECS:
        try:
            print(translate_unit(u))
        except Untranslatable as exc:
            print("FAILED", u, exc)
            sys.exit(1)
