"""K-actor: actor scenarios run on the implementation (both engines, virtual time) and on Model/Actors.v.

A scenario is a list of steps over actors numbered in creation order (0 = root):
  ("do", me, k, [op, ...])   actor `me` receives trigger event O<k>, whose handler runs the ops in order
  ("adv", t_ms)              the virtual clock moves to t
  ("stop", i)                interpreter i .stop() is called from outside
ops: ("spawn", form, key, eid, sysid)  form in {"builtin", "plain", "blocking"}
     ("sendTo", spec, tag, delay, sid) ("sendParent", tag, delay, sid) ("forward", spec) ("escalate",)
     ("cancel", sid) ("stopChild", spec)
Every actor runs a machine that records what it receives; each actor's machine knows only its own triggers, so a
forwarded trigger is just a message for the recipient."""
from __future__ import annotations

import asyncio
import logging
import random
import re
import signal
import types

from . import core, impl
from .impl import TN, TS

ESC_TAG = 999999


# ---------------------------------------------------------------- scenario -> Coq
def opt_s(x):
    return "None" if x is None else '(Some "%s"%%string)' % x


def atype_of(op):
    _, form, key, eid, sysid = op
    return ("spawn_blocking_" if form == "blocking" else "spawn_") + key


def op_coq(op):
    k = op[0]
    if k == "spawn":
        return '(OpSpawn "%s" %s %s)' % (atype_of(op), opt_s(op[3]), opt_s(op[4]))
    if k == "sendTo":
        return '(OpSendTo "%s" %d %d %s)' % (op[1], 2 * op[2], op[3], opt_s(op[4]))
    if k == "sendParent":
        return "(OpSendParent %d %d %s)" % (2 * op[1], op[2], opt_s(op[3]))
    if k == "forward":
        return '(OpForward "%s")' % op[1]
    if k == "escalate":
        return "OpEscalate"
    if k == "cancel":
        return '(OpCancel "%s")' % op[1]
    if k == "stopChild":
        return '(OpStopChild "%s")' % op[1]
    raise ValueError(op)


def step_coq(st):
    if st[0] == "do":
        return "(SDo %d %d %s)" % (st[1], st[2], core.cl(op_coq(o) for o in st[3]))
    if st[0] == "adv":
        return "(SAdvance %d)" % st[1]
    if st[0] == "stop":
        return "(SStop %d)" % st[1]
    raise ValueError(st)


def scenario_coq(steps):
    return core.cl(step_coq(s) for s in steps)


# ---------------------------------------------------------------- scenario -> implementation
def action_json(op):
    k = op[0]
    if k == "spawn":
        _, form, key, eid, sysid = op
        if form == "builtin":
            return {"type": "xstate.spawnChild", "params": {"src": key, "id": eid, "systemId": sysid}}
        return {"type": atype_of(op), "params": {"id": eid, "systemId": sysid}}
    if k == "sendTo":
        return {"type": "xstate.sendTo", "params": {"to": op[1], "event": {"type": "M%d" % op[2]},
                                                    "delay": op[3] or None, "id": op[4]}}
    if k == "sendParent":
        return {"type": "xstate.sendParent", "params": {"event": {"type": "M%d" % op[1]}, "delay": op[2] or None, "id": op[3]}}
    if k == "forward":
        return {"type": "xstate.forwardTo", "params": {"to": op[1]}}
    if k == "escalate":
        return {"type": "xstate.escalate", "params": {"error": "boom"}}
    if k == "cancel":
        return {"type": "xstate.cancel", "params": {"sendId": op[1]}}
    if k == "stopChild":
        return {"type": "xstate.stopChild", "params": {"id": op[1]}}
    raise ValueError(op)


def machine_config(idx, steps, max_iter=None):
    on = {}
    for st in steps:
        if st[0] == "do" and st[1] == idx:
            on["O%d" % st[2]] = {"actions": [action_json(o) for o in st[3] if o[0] != "finish"]}
            if any(o[0] == "finish" for o in st[3]):
                # (implementation-only scenarios, C14: the actor reaches a top-level final state - status `done` - while it
                #  still owns children and pending delayed sends; Model/Actors.v has no such step)
                on["O%d" % st[2]]["target"] = "end"
    on["*"] = {"actions": ["recv"]}
    cfg = {"id": "m" if idx == 0 else "child%d" % idx, "initial": "on", "context": {},
           "states": {"on": {"entry": ["hello"], "on": on}, "end": {"type": "final"}}}
    if max_iter is not None:
        cfg["maxIterations"] = max_iter
    return cfg


def service_keys(steps):
    return sorted({o[2] for st in steps if st[0] == "do" for o in st[3] if o[0] == "spawn"})


class ARec:
    def __init__(self, steps, engine, max_iter=None):
        self.steps, self.engine, self.max_iter = steps, engine, max_iter
        self.actors = []          # interpreters in creation order
        self.inbox = {}           # id(interp) -> [tags]
        self.times = {}           # id(interp) -> [virtual ms at receipt]
        self.clock = lambda: 0.0
        self.trig = {}            # (actor, trigger type) -> times received
        self.stopped = {}         # id(interp) -> virtual ms at which its stop() completed (first time)
        self.trace = []           # after every step: per-actor status / inbox length / children, registry
        self.drops = 0
        self.ambig = 0

    def snap_step(self):
        reg = self.actors[0]._system if self.actors else {}
        self.trace.append(dict(
            t=round(self.clock(), 3),
            running=[a.status == "running" for a in self.actors],
            status=[str(a.status) for a in self.actors],
            sends=[len(a._scheduled_sends) for a in self.actors],
            nin=[len(self.inbox.get(id(a), [])) for a in self.actors],
            children=[[self.idx(c) for c in a._actors.values()] for a in self.actors],
            parent=[self.idx(a.parent) if a.parent is not None else None for a in self.actors],
            registry={k: self.idx(v) for k, v in reg.items()},
            drops=self.drops, ambig=self.ambig))

    def idx(self, interp):
        for i, a in enumerate(self.actors):
            if a is interp:
                return i
        return None


def tag_of_type(ty):
    if ty.startswith("xstate.error.actor."):
        return ESC_TAG
    m = re.fullmatch(r"M(\d+)", ty)
    if m:
        return 2 * int(m.group(1))
    m = re.fullmatch(r"O(\d+)", ty)
    if m:
        return 2 * int(m.group(1)) + 1
    return 888888


def build_logic(rec: ARec):
    from xstate_statemachine import MachineLogic, create_machine

    from xstate_statemachine import PluginBase

    class EscPlugin(PluginBase):
        # wildcards never match engine-internal `xstate.*` events, so an escalation is only visible here
        def on_event_received(self, interpreter, event):
            ty = str(getattr(event, "type", ""))
            if ty.startswith("O"):
                key = (id(interpreter), ty)
                rec.trig[key] = rec.trig.get(key, 0) + 1
            if str(getattr(event, "type", "")).startswith("xstate.error.actor."):
                rec.inbox.setdefault(id(interpreter), []).append(ESC_TAG)
                rec.times.setdefault(id(interpreter), []).append(round(rec.clock(), 3))

        # when an actor stopped, to the instant: a runner thread (sync engine) stops its child BETWEEN two scenario steps
        def on_interpreter_stop(self, interpreter):
            rec.stopped.setdefault(id(interpreter), round(rec.clock(), 3))
    esc = EscPlugin()

    def hello(interp, ctx, ev, ad):
        if rec.idx(interp) is None:
            rec.actors.append(interp)
            rec.inbox[id(interp)] = []
            rec.times[id(interp)] = []
            interp.use(esc)

    def recv(interp, ctx, ev, ad):
        rec.inbox.setdefault(id(interp), []).append(tag_of_type(ev.type))
        rec.times.setdefault(id(interp), []).append(round(rec.clock(), 3))

    if rec.engine == "async":
        async def a_hello(interp, ctx, ev, ad):
            hello(interp, ctx, ev, ad)

        async def a_recv(interp, ctx, ev, ad):
            recv(interp, ctx, ev, ad)
        actions = {"hello": a_hello, "recv": a_recv}
    else:
        actions = {"hello": hello, "recv": recv}
    logic = MachineLogic(actions=actions, services={})

    def factory(interp, ctx, ev):
        n = len(rec.actors)     # the actor about to be created
        return create_machine(machine_config(n, rec.steps, rec.max_iter), logic=logic)
    for k in service_keys(rec.steps):
        logic.services[k] = factory
    return logic


class WarnCounter(logging.Handler):
    def __init__(self, rec):
        super().__init__(level=logging.WARNING)
        self.rec = rec

    def emit(self, record):
        try:
            msg = record.getMessage()
        except Exception:
            return
        if "is ambiguous" in msg:
            self.rec.ambig += 1
        elif "could not resolve" in msg or "sendParent called with no parent" in msg:
            self.rec.drops += 1


def observe(rec: ARec):
    """-> tokens, mirroring Cases.flat_sys"""
    out = []
    reg = rec.actors[0]._system if rec.actors else {}
    out.append(TS("n")); out.append(TN(len(rec.actors)))
    for a in rec.actors:
        out.append(TS("actor"))
        out.append(TN(1 if a.status == "running" else 0))
        out.append(TS("inbox"))
        out.extend(TN(t) for t in rec.inbox.get(id(a), []))
        out.append(TS("children"))
        for cid, c in a._actors.items():
            i = rec.idx(c)
            out.append(TN(i if i is not None else 777777))
        out.append(TS("sources"))
        out.extend(TS(v) for cid, v in a._actor_sources.items() if True)
        out.append(TS("sends"))
        out.append(TN(len(a._scheduled_sends) if a.status == "running" else 0))
    out.append(TS("registry"))
    for sid, c in reg.items():
        out.append(TS(sid))
        i = rec.idx(c)
        out.append(TN(i if i is not None else 777777))
    out.append(TS("drops")); out.append(TN(rec.drops))
    out.append(TS("ambig")); out.append(TN(rec.ambig))
    return out


def _attach(rec):
    h = WarnCounter(rec)
    lg = logging.getLogger("xstate_statemachine")
    h._old = (lg.level, lg.propagate, list(lg.handlers))
    lg.handlers = [h]
    lg.setLevel(logging.WARNING)
    lg.propagate = False
    h._sub = {}
    for name in ("xstate_statemachine.sync_interpreter", "xstate_statemachine.interpreter", "xstate_statemachine.base_interpreter"):
        sub = logging.getLogger(name)
        h._sub[name] = sub.level
        sub.setLevel(logging.NOTSET)
    logging.disable(logging.INFO)
    return h


def _detach(h):
    lg = logging.getLogger("xstate_statemachine")
    lg.handlers = h._old[2]
    lg.setLevel(h._old[0])
    lg.propagate = h._old[1]
    for name, lvl in h._sub.items():
        logging.getLogger(name).setLevel(lvl)
    logging.disable(logging.CRITICAL)


def run_sync(steps, max_iter=None):
    from xstate_statemachine import create_machine, SyncInterpreter
    import xstate_statemachine.sync_interpreter as si
    from . import vthreads
    import threading as _real
    rec = ARec(steps, "sync", max_iter)
    h = _attach(rec)
    sched, uninstall = vthreads.install()
    rec.clock = lambda: sched.clock
    old_time = si.time

    def vsleep(d):
        if sched.shutting_down:
            raise SystemExit
        if _real.current_thread().name in sched.alive:
            vthreads.VEvent().wait(d)
    si.time = types.SimpleNamespace(sleep=vsleep, time=old_time.time, monotonic=old_time.monotonic)
    snaps = []
    try:
        def main():
            logic = build_logic(rec)
            root = SyncInterpreter(create_machine(machine_config(0, steps, max_iter), logic=logic))
            root.start()
            for st in steps:
                try:
                    if st[0] == "do":
                        if st[1] < len(rec.actors):
                            rec.actors[st[1]].send("O%d" % st[2])
                    elif st[0] == "adv":
                        sched.advance(st[1] + 0.1)
                    elif st[0] == "stop":
                        if st[1] < len(rec.actors):
                            rec.actors[st[1]].stop()
                except Exception as exc:
                    snaps.append([TS("exc"), TN(impl.err_code(exc))])
                rec.snap_step()
                # let runner threads (10 ms poll) notice what happened: virtual time moves only in "adv" steps,
                # scenarios always advance by >= 20 ms after a step that stops something
            snaps.append(observe(rec))
            for a in list(rec.actors):
                try:
                    a.stop()
                except Exception:
                    pass
        try:
            impl.with_timeout(5, main)
        except impl.Timeout:
            snaps.append([TS("TIMEOUT")])
    finally:
        signal.setitimer(signal.ITIMER_REAL, 0, 0)
        try:
            uninstall()
        finally:
            si.time = old_time
            _detach(h)
    return dict(snaps=snaps, trace=rec.trace, inbox=[list(zip(rec.inbox.get(id(a), []), rec.times.get(id(a), []))) for a in rec.actors],
                self_forward=any(v > 1 for v in rec.trig.values()), stopped=[rec.stopped.get(id(a)) for a in rec.actors])


def run_async(steps, max_iter=None):
    from xstate_statemachine import create_machine, Interpreter
    rec = ARec(steps, "async", max_iter)
    h = _attach(rec)
    snaps = []

    async def quiesce_all():
        for _ in range(6):
            for a in list(rec.actors):
                await impl.quiesce(a, extra=1)

    async def main():
        logic = build_logic(rec)
        root = Interpreter(create_machine(machine_config(0, steps, max_iter), logic=logic))
        await root.start()
        await quiesce_all()
        lp = asyncio.get_event_loop()
        for st in steps:
            try:
                if st[0] == "do":
                    if st[1] < len(rec.actors):
                        await rec.actors[st[1]].send("O%d" % st[2])
                elif st[0] == "adv":
                    await asyncio.sleep(max(0.0, st[1] / 1000.0 + 0.0001 - lp.time()))
                elif st[0] == "stop":
                    if st[1] < len(rec.actors):
                        await rec.actors[st[1]].stop()
            except Exception as exc:
                snaps.append([TS("exc"), TN(impl.err_code(exc))])
            await quiesce_all()
            rec.snap_step()
        snaps.append(observe(rec))
        for a in list(rec.actors):
            try:
                await a.stop()
            except Exception:
                pass

    loop = impl.VLoop()
    rec.clock = lambda: loop.time() * 1000.0
    loop.set_exception_handler(lambda *a: None)
    timed_out = False
    try:
        try:
            impl.with_timeout(5, lambda: loop.run_until_complete(main()))
        except impl.Timeout:
            timed_out = True
            snaps.append([TS("TIMEOUT")])
    finally:
        signal.setitimer(signal.ITIMER_REAL, 0, 0)
        try:
            for t in asyncio.all_tasks(loop):
                t._log_destroy_pending = False
                t.cancel()
            if not timed_out:
                loop.run_until_complete(asyncio.sleep(0))
        except BaseException:
            pass
        try:
            loop.close()
        except BaseException:
            pass
        _detach(h)
    return dict(snaps=snaps, trace=rec.trace, inbox=[list(zip(rec.inbox.get(id(a), []), rec.times.get(id(a), []))) for a in rec.actors],
                self_forward=any(v > 1 for v in rec.trig.values()), stopped=[rec.stopped.get(id(a)) for a in rec.actors])


def run_impl_case(args):
    steps, engine, max_iter = args
    try:
        return (run_sync if engine == "sync" else run_async)(steps, max_iter)
    except BaseException as exc:  # noqa
        return dict(snaps=[[TS("harness-exc"), TS(type(exc).__name__ + ":" + str(exc)[:80])]], trace=[], inbox=[])


# ---------------------------------------------------------------- scenario generators
SPECS_KEYS = ["w", "w1", "w10", "kid", "kid2", "work"]


def random_scenario(rng: random.Random, n_steps=10, rich=True):
    """Mostly-valid scenarios over a growing actor tree.  Tracks a rough picture of what exists to aim the specs.
    Kept out on purpose (the engines' answer depends on task scheduling, not on the bookkeeping under test):
    forwarding a trigger to the actor that handles it; stopping an actor in the same handler that has just sent it a
    zero-delay event (async: queued events of a stopped actor are discarded); two delayed sends due at one instant."""
    steps = []
    actors = [dict(parent=None, key=None, eid=None, sysid=None)]   # planned creation order
    t = 0
    k = 0
    msg = 0
    sids = ["s1", "s2"]
    sysids = ["sysA", "sysB", "sysC"]
    delays = [0, 0, 30, 70, 160, 250]

    def specs_for(me, fwd=False):
        out = ["parent", "#parent", "nobody"]
        for i, a in enumerate(actors):
            if a["parent"] == me:
                out += [a["key"]] * 2
                if a["eid"]:
                    out += [a["eid"]] * 3
            if a["sysid"] and not (fwd and (i == me or a["sysid"] == actors[me]["sysid"])):
                out += [a["sysid"]] * 2
        out += rng.sample(SPECS_KEYS, 2)
        if fwd and actors[me]["sysid"]:
            out = [x for x in out if x != actors[me]["sysid"]]
        return out
    for _ in range(n_steps):
        me = rng.randrange(len(actors)) if rng.random() < 0.6 else 0
        ops = []
        stops = []
        for _ in range(rng.choice([1, 1, 1, 2, 3])):
            r = rng.random()
            if r < 0.30 and len(actors) < 7:
                key = rng.choice(SPECS_KEYS[:5])
                eid = rng.choice([None, None, "w", "w1", "w10", "kid", "x"]) if rich else None
                sysid = rng.choice([None, None] + sysids)
                form = rng.choice(["builtin", "plain", "plain", "blocking"])
                ops.append(("spawn", form, key, eid, sysid))
                actors.append(dict(parent=me, key=key, eid=eid, sysid=sysid))
            elif r < 0.60:
                msg += 1
                ops.append(("sendTo", rng.choice(specs_for(me)), msg, rng.choice(delays), rng.choice([None, None] + sids)))
            elif r < 0.70:
                msg += 1
                ops.append(("sendParent", msg, rng.choice(delays[:5]), rng.choice([None, None, None] + sids)))
            elif r < 0.78:
                ops.append(("forward", rng.choice(specs_for(me, fwd=True))))
            elif r < 0.82:
                ops.append(("escalate",))
            elif r < 0.90:
                ops.append(("cancel", rng.choice(sids)))
            else:
                stops.append(("stopChild", rng.choice(specs_for(me))))
        k += 1
        steps.append(("do", me, k, stops + [o for o in ops if not (stops and o[0] == "spawn")]))
        if stops:
            # spawns planned for a handler that also stops are dropped from the plan again
            n_drop = sum(1 for o in ops if o[0] == "spawn")
            if n_drop:
                del actors[-n_drop:]
        t += rng.choice([100, 100, 200])
        steps.append(("adv", t))
        if rng.random() < 0.06 and len(actors) > 1:
            steps.append(("stop", rng.randrange(len(actors))))
            t += 100
            steps.append(("adv", t))
    steps.append(("adv", t + 400))
    return steps


def directed_scenarios():
    """Hand-aimed shapes: prefix-related ids, ambiguous keys, id reuse, cancel vs supersede, stop cascades, delayed
    sends of stopped actors, relays."""
    S = []
    # prefix-related explicit ids: w1 / w10, addressed by the shorter one
    S.append([("do", 0, 1, [("spawn", "builtin", "w", "w1", None), ("spawn", "builtin", "w", "w10", None)]), ("adv", 100),
              ("do", 0, 2, [("sendTo", "w1", 1, 0, None), ("sendTo", "w10", 2, 0, None), ("sendTo", "w", 3, 0, None)]), ("adv", 200),
              ("do", 0, 3, [("stopChild", "w1")]), ("adv", 300), ("do", 0, 4, [("sendTo", "w1", 4, 0, None), ("sendTo", "w10", 5, 0, None)]), ("adv", 400)])
    # same key twice without id: ambiguous -> dropped with warnings; with systemId: addressed
    S.append([("do", 0, 1, [("spawn", "plain", "kid", None, "sysA"), ("spawn", "plain", "kid", None, None)]), ("adv", 100),
              ("do", 0, 2, [("sendTo", "kid", 1, 0, None), ("sendTo", "sysA", 2, 0, None), ("forward", "kid"), ("stopChild", "kid")]), ("adv", 200),
              ("do", 0, 3, [("stopChild", "sysA")]), ("adv", 300), ("do", 0, 4, [("sendTo", "kid", 3, 0, None), ("sendTo", "sysA", 4, 0, None)]), ("adv", 400)])
    # partial key must not resolve
    S.append([("do", 0, 1, [("spawn", "plain", "worker", None, None)]), ("adv", 100),
              ("do", 0, 2, [("sendTo", "work", 1, 0, None), ("sendTo", "worker", 2, 0, None)]), ("adv", 200)])
    # delayed sends: cancel only the named one; supersede by reusing the id; id-less survive cancel
    S.append([("do", 0, 1, [("spawn", "builtin", "w", "a", None)]), ("adv", 100),
              ("do", 0, 2, [("sendTo", "a", 1, 150, "s1"), ("sendTo", "a", 2, 150, "s2"), ("sendTo", "a", 3, 150, None)]), ("adv", 150),
              ("do", 0, 3, [("cancel", "s1")]), ("adv", 200), ("do", 0, 4, [("sendTo", "a", 4, 150, "s2")]), ("adv", 600)])
    # a child with pending delayed sends to its parent and to a sibling is stopped: nothing arrives afterwards
    S.append([("do", 0, 1, [("spawn", "plain", "w", "a", "sysA"), ("spawn", "plain", "w", "b", "sysB")]), ("adv", 100),
              ("do", 1, 2, [("sendParent", 1, 150, None), ("sendTo", "sysB", 2, 150, None), ("sendParent", 3, 150, "s1"), ("sendParent", 4, 0, None)]), ("adv", 150),
              ("do", 0, 3, [("stopChild", "a")]), ("adv", 600), ("do", 0, 4, [("sendTo", "sysA", 5, 0, None), ("sendTo", "a", 6, 0, None)]), ("adv", 700)])
    # grandchildren: stopChild on the child stops them too and their delayed sends die; registry
    S.append([("do", 0, 1, [("spawn", "plain", "w", "a", "sysA")]), ("adv", 100),
              ("do", 1, 2, [("spawn", "plain", "g", "x", "sysG"), ("spawn", "blocking", "g", "y", None)]), ("adv", 200),
              ("do", 2, 3, [("sendTo", "sysA", 1, 150, None), ("sendParent", 2, 150, None)]), ("adv", 250),
              ("do", 0, 4, [("stopChild", "a")]), ("adv", 700), ("do", 0, 5, [("sendTo", "sysG", 3, 0, None)]), ("adv", 800)])
    # whole-tree stop
    S.append([("do", 0, 1, [("spawn", "plain", "w", "a", "sysA"), ("spawn", "blocking", "w", "b", "sysB")]), ("adv", 100),
              ("do", 1, 2, [("spawn", "plain", "g", None, "sysG"), ("sendParent", 1, 150, None)]), ("adv", 150),
              ("stop", 0), ("adv", 600)])
    # explicit id reused: the second spawn replaces the map entry
    S.append([("do", 0, 1, [("spawn", "builtin", "w", "a", "sysA")]), ("adv", 100), ("do", 0, 2, [("spawn", "builtin", "w", "a", "sysB")]), ("adv", 200),
              ("do", 0, 3, [("sendTo", "a", 1, 0, None), ("sendTo", "sysA", 2, 0, None), ("sendTo", "sysB", 3, 0, None)]), ("adv", 300),
              ("do", 0, 4, [("stopChild", "sysA")]), ("adv", 400), ("do", 0, 5, [("sendTo", "a", 4, 0, None)]), ("adv", 500)])
    # ... and then the whole tree is stopped: the earlier child - thread-managed or not - must not survive the parent's stop()
    for form in ("builtin", "blocking"):
        S.append([("do", 0, 1, [("spawn", form, "w", "a", "sysA")]), ("adv", 100), ("do", 0, 2, [("spawn", "plain", "w", "a", "sysB")]), ("adv", 200),
                  ("do", 0, 3, [("sendTo", "sysA", 1, 0, None), ("sendTo", "a", 2, 0, None)]), ("adv", 300), ("stop", 0), ("adv", 400)])
    # relay: the root relays each trigger to a child, many times in a row (machine bound 3)
    S.append([("do", 0, 1, [("spawn", "plain", "w", "a", None)]), ("adv", 100)] +
             [s for i in range(2, 12) for s in (("do", 0, i, [("sendTo", "a", i, 0, None)]),)] + [("adv", 300)])
    # sendParent / escalate from root: dropped; child escalates
    S.append([("do", 0, 1, [("sendParent", 1, 0, None), ("escalate",), ("spawn", "plain", "w", "a", None)]), ("adv", 100),
              ("do", 1, 2, [("escalate",), ("sendParent", 2, 0, None), ("sendTo", "parent", 3, 0, None), ("sendTo", "#parent", 4, 50, None)]), ("adv", 300)])
    return S


# ---------------------------------------------------------------- K-actor
def model_tokens(engine, steps, name="actor_one"):
    """Evaluate the model on one scenario; returns Coq's printed token list (text)."""
    text = "From XSM Require Import Model.ActorCases.\nEval vm_compute in actor_case %s %s.\n" % (
        "ASync" if engine == "sync" else "AAsync", scenario_coq(steps))
    rc, out, _ = core.coq_eval(name, text, timeout=300)
    return out


def check(cases, name, shard=40, workers=14, par=14):
    """cases: list of (steps, engine, max_iter).  -> (disagreements, stats, impl_results)"""
    from concurrent.futures import ProcessPoolExecutor
    with ProcessPoolExecutor(max_workers=workers) as ex:
        results = list(ex.map(run_impl_case, cases, chunksize=4))
    stats = dict(cases=len(cases), impl_timeouts=0, harness_exc=0, steps=sum(len(c[0]) for c in cases),
                 ops={}, engines={})
    for (steps, engine, _), r in zip(cases, results):
        stats["engines"][engine] = stats["engines"].get(engine, 0) + 1
        for st in steps:
            if st[0] == "do":
                for o in st[3]:
                    stats["ops"][o[0]] = stats["ops"].get(o[0], 0) + 1
            else:
                stats["ops"][st[0]] = stats["ops"].get(st[0], 0) + 1
    jobs, index = [], []
    usable = []
    for i, ((steps, engine, mi), rr) in enumerate(zip(cases, results)):
        r = rr["snaps"]
        if any(len(s) == 1 and s[0][1] == "TIMEOUT" for s in r):
            stats["impl_timeouts"] += 1
            continue
        if any(s and s[0][1] in ("harness-exc",) for s in r):
            stats["harness_exc"] += 1
        usable.append(i)
    disagreements = []
    for eng in ("sync", "async"):
        idx = [i for i in usable if cases[i][1] == eng]
        for j in range(0, len(idx), shard):
            part = idx[j:j + shard]
            rows = ["(%s, %s)" % (scenario_coq(cases[i][0]), impl.toks_coq(results[i]["snaps"][-1])) for i in part]
            text = "From XSM Require Import Model.ActorCases.\nEval vm_compute in check_actors %s %s.\n" % (
                "ASync" if eng == "sync" else "AAsync", core.cl(rows))
            jn = "%s_%s_%03d" % (name, eng, j // shard)
            jobs.append((jn, text))
            index.append((jn, part))
    outs = core.coq_eval_many(jobs, par=par)
    for jn, part in index:
        rc, out, _ = outs[jn]
        if rc != 0:
            disagreements.append(dict(component="K-actor", case=None, impl=None, model="coqc failed: " + out[-600:]))
            continue
        body = re.sub(r"\s+", "", out[out.find("="):])
        m = re.match(r"=\[([0-9;]*)\]", body)
        if not m:
            disagreements.append(dict(component="K-actor", case=None, impl=None, model="unparsed: " + out[-300:]))
            continue
        for b in re.findall(r"\d+", m.group(1)):
            i = part[int(b)]
            disagreements.append(dict(component="K-actor", case=dict(steps=cases[i][0], engine=cases[i][1], max_iter=cases[i][2]),
                                      impl=[t[1] for t in results[i]["snaps"][-1]], model=None))
    return disagreements, stats, results


def parse_toks(out):
    body = out[out.find("="):]
    return [int(a) if a else b for a, b in re.findall(r'TN (\d+)|TS "([^"]*)"', body)]


def diff_case(steps, engine, max_iter=3):
    mt = parse_toks(model_tokens(engine, steps))
    it = [t[1] for t in run_impl_case((steps, engine, max_iter))["snaps"][-1]]
    return mt, it


def shrink(steps, engine, max_iter=3):
    """greedy: drop steps / ops while model and implementation still differ"""
    def differs(s):
        mt, it = diff_case(s, engine, max_iter)
        return mt != it
    cur = list(steps)
    changed = True
    while changed:
        changed = False
        for i in range(len(cur) - 1, -1, -1):
            cand = cur[:i] + cur[i + 1:]
            if cand and differs(cand):
                cur, changed = cand, True
                continue
            st = cur[i] if i < len(cur) else None
            if st and st[0] == "do" and len(st[3]) > 1:
                for j in range(len(st[3]) - 1, -1, -1):
                    cand = cur[:i] + [("do", st[1], st[2], st[3][:j] + st[3][j + 1:])] + cur[i + 1:]
                    if differs(cand):
                        cur, changed = cand, True
                        st = cur[i]
    return cur
