"""Independent Python restatements of property texts over abstract machines
(the monitors' oracles).  Deliberately written from the property statements,
not from the implementation."""
from __future__ import annotations

from harness.props.c20 import spec_matching

INTERNAL3 = ("done.", "error.", "after.")


class Missing(Exception):
    pass


def guard_value(am, g, cfg, ctx):
    """Boolean meaning of a guard; a raising atom counts as False; a missing atom raises Missing."""
    k = g[0]
    if k == "ge":
        return ctx.get(g[1], 0) >= g[2]
    if k == "pz":
        return ctx.get(0, 0) >= g[1]
    if k == "raises":
        return False
    if k == "missing":
        raise Missing()
    if k == "in":
        t = g[1]
        if not t:
            return False
        norm = t[1:] if t.startswith("#") else t
        return any(am.sid(s) == norm or am.sid(s).endswith("." + norm) for s in cfg)
    if k == "and":
        for x in g[1]:
            if not guard_value(am, x, cfg, ctx):
                return False
        return True
    if k == "or":
        for x in g[1]:
            if guard_value(am, x, cfg, ctx):
                return True
        return False
    if k == "not":
        return not guard_value(am, g[1], cfg, ctx)
    raise ValueError(g)


def enabled(am, t, cfg, ctx):
    return t.guard is None or guard_value(am, t.guard, cfg, ctx)


def candidates_at(am, s, ev):
    """Candidate transitions of state s for event ev=(type, kind, tag), in priority order.
    Returns (list, forbidden_hit)."""
    ty, kind, _ = ev
    n = am.nodes[s]
    out = []
    onmap = dict(n.on)
    if ty != "":
        for key in spec_matching([k for k, _ in n.on], ty):
            for t in onmap[key]:
                if t.forbidden:
                    return out, True
                out.append(t)
    if not ty.startswith(INTERNAL3) and "" in onmap:
        out += onmap[""]
    if n.ondone is not None and n.ondone.event == ty:
        out.append(n.ondone)
    if kind == "after":
        for _, ts in n.after:
            out += [t for t in ts if t.event == ty]
    if isinstance(kind, tuple) and kind[0] == "done":
        for inv in n.invoke:
            if inv.iid == kind[1]:
                out += [t for t in inv.ondone + inv.onerror if t.event == ty]
    return out, False


def nominee(am, leaf, cfg, ctx, ev):
    """First enabled candidate of the nearest ancestor-or-self that has one; a forbidden
    candidate under a matching descriptor stops the walk."""
    for s in am.anc_self(leaf):
        cands, blocked = candidates_at(am, s, ev)
        for t in cands:
            if enabled(am, t, cfg, ctx):
                return t
        if blocked:
            return None
    return None


def is_leaf(am, s):
    n = am.nodes[s]
    return n.kind in ("atomic", "final") or not n.children


def spec_select(am, cfg, ctx, ev):
    """The nominated transitions (tids), once each, deepest source first; or 'ERR' when a
    named-but-missing guard is reached."""
    cfg = list(cfg)
    leaves = [s for s in cfg if is_leaf(am, s)] or cfg
    leaves.sort(key=lambda s: (-am.depth(s), am.sid(s)))
    out = []
    try:
        for leaf in leaves:
            t = nominee_eval_all(am, leaf, cfg, ctx, ev)
            if t is not None and t.tid not in [x.tid for x in out]:
                out.append(t)
    except Missing:
        return "ERR"
    out.sort(key=lambda t: -am.depth(t.src))
    return [t.tid for t in out]


def nominee_eval_all(am, leaf, cfg, ctx, ev):
    """Like nominee, but evaluates every candidate's guard on the walk (as the library does), so that a
    missing guard anywhere on the chain is an error rather than being skipped."""
    best = None
    for s in am.anc_self(leaf):
        cands, blocked = candidates_at(am, s, ev)
        for t in cands:
            if enabled(am, t, cfg, ctx) and best is None:
                best = t
        if blocked:
            break
    return best
