"""Abstract machines: the single source of truth for a correspondence case.
From an AM the harness derives (i) the JSON/Python config handed to
create_machine and (ii) the Gallina term handed to the model."""
from __future__ import annotations

import itertools
import random
from dataclasses import dataclass, field
from typing import Any, List, Optional

from harness.core import cq, cl

KINDS = ("atomic", "compound", "parallel", "final", "hist_shallow", "hist_deep")


@dataclass
class Trans:
    tid: int
    src: int
    event: str
    target: Any = None            # None | int | "UNRES"
    guard: Any = None             # None | guard tuple
    actions: list = field(default_factory=list)
    reenter: bool = False
    forbidden: bool = False


@dataclass
class Invoke:
    iid: str
    src: int                      # service table index; 0 = not registered
    ondone: list = field(default_factory=list)
    onerror: list = field(default_factory=list)
    dur: int = 1                  # ms the Recorder service takes (async engine)
    ok: bool = True               # returns (True) or raises (False)
    val: int = 0
    machine: bool = False         # the service is a child MACHINE (reaches its final state after `dur` ms); async engine only


@dataclass
class Node:
    idx: int
    key: str
    parent: Optional[int]
    kind: str
    children: list = field(default_factory=list)
    initial: Optional[int] = None
    entry: list = field(default_factory=list)
    exit: list = field(default_factory=list)
    on: list = field(default_factory=list)        # [(key, [Trans])], "" = always bucket
    ondone: Optional[Trans] = None
    after: list = field(default_factory=list)     # [(delay_ms, [Trans])]
    invoke: list = field(default_factory=list)
    hist_default: Optional[int] = None
    output: Optional[int] = None
    declared_initial: bool = True                 # spell `initial` in the config (False: rely on inference)


@dataclass
class AM:
    nodes: List[Node]
    max_iter: int = 1000
    output: Optional[int] = None
    root_id: str = "m"

    # ---- derived ----
    def sid(self, i):
        n = self.nodes[i]
        return self.root_id if n.parent is None else self.sid(n.parent) + "." + n.key

    def depth(self, i):
        d = 0
        while self.nodes[i].parent is not None:
            i = self.nodes[i].parent
            d += 1
        return d

    def anc_self(self, i):
        out = [i]
        while self.nodes[i].parent is not None:
            i = self.nodes[i].parent
            out.append(i)
        return out

    def is_desc(self, x, a):
        return a in self.anc_self(x)

    def all_trans(self):
        out = []
        for n in self.nodes:
            for _, ts in n.on:
                out += ts
            if n.ondone:
                out.append(n.ondone)
            for _, ts in n.after:
                out += ts
            for inv in n.invoke:
                out += inv.ondone + inv.onerror
        return out

    def index_by_id(self):
        return {self.sid(i): i for i in range(len(self.nodes))}

    # ---- legality (Python restatement of property C01; the monitor) ----
    def legal(self, C):
        C = set(C)
        if 0 not in C:
            return False
        for s in C:
            n = self.nodes[s]
            if n.parent is not None and n.parent not in C:
                return False
            if n.kind.startswith("hist"):
                return False
            kids = n.children
            if n.kind == "compound" and kids:
                if sum(1 for c in kids if c in C) != 1:
                    return False
            if n.kind == "parallel":
                if any((not self.nodes[c].kind.startswith("hist")) and c not in C for c in kids):
                    return False
            if n.kind in ("atomic", "final") and any(c in C for c in kids):
                return False
        return True

    def legal_configs(self):
        """All legal configurations (as sorted tuples)."""
        def fill(s):
            n = self.nodes[s]
            kids = [c for c in n.children if not self.nodes[c].kind.startswith("hist")]
            if n.kind == "compound" and n.children:
                out = []
                for c in kids:
                    out += [[s] + r for r in fill(c)]
                return out
            if n.kind == "parallel":
                opts = [fill(c) for c in kids]
                return [[s] + sum(combo, []) for combo in itertools.product(*opts)]
            return [[s]]
        return [tuple(sorted(c)) for c in fill(0)]

    # ---- rendering: config for create_machine ----
    def guard_json(self, g, spelling=0):
        k = g[0]
        if k == "ge":
            return {"type": "ge", "params": {"v": g[1], "z": g[2]}}
        if k == "pz":
            # a parameterised guard whose params value is a bare (possibly falsy) number: ctx[v0] >= params
            return {"type": "pz", "params": g[1]}
        if k == "raises":
            return "r%d" % g[1]
        if k == "missing":
            return "nog%d" % g[1]
        if k == "in":
            return {"type": "stateIn", "params": {"state": g[1]}}
        if k in ("and", "or"):
            kids = [self.guard_json(x, spelling) for x in g[1]]
            if spelling == 1:
                return {"type": k, "params": {"guards": kids}}
            return {"type": k, "children": kids}
        if k == "not":
            if spelling == 1:
                return {"type": "not", "params": {"guard": self.guard_json(g[1], spelling)}}
            return {"type": "not", "children": [self.guard_json(g[1], spelling)]}
        raise ValueError(g)

    def act_json(self, a):
        k = a[0]
        if k == "mark":
            return "m%d" % a[1]
        if k == "fail":
            return {"type": "f%d" % a[1]}
        if k == "missing":
            return "noa%d" % a[1]
        if k == "assign":
            return {"type": "xstate.assign", "params": {"assignment": {"v%d" % a[1]: a[2]}}}
        if k == "raise":
            return {"type": "xstate.raise", "params": {"event": {"type": a[1], "tag": a[2]}}}
        if k == "bad":
            return {"type": "xstate.assign", "params": BadParams(a[1])}
        if k == "emit":
            return {"type": "xstate.emit", "params": {"event": {"type": "EM%d" % a[1]}}}
        if k == "slow":
            return "s%d" % a[1]
        if k == "del":
            return "d%d_%d" % (a[1], a[2])
        raise ValueError(a)

    def trans_json(self, t, gspell=0, cond=False):
        if t.forbidden:
            return None
        d = {}
        if t.target == "UNRES":
            d["target"] = "#%s.no_such_state_%d" % (self.root_id, t.tid)
        elif t.target is not None:
            d["target"] = "#" + self.sid(t.target)
        if t.guard is not None:
            d["cond" if cond else "guard"] = self.guard_json(t.guard, gspell)
        if t.actions:
            d["actions"] = [self.act_json(a) for a in t.actions]
        if t.reenter:
            d["reenter"] = True
        return d

    def node_json(self, i, opts):
        n = self.nodes[i]
        d = {}
        if n.kind == "parallel":
            d["type"] = "parallel"
        elif n.kind == "final":
            d["type"] = "final"
        elif n.kind == "hist_shallow":
            d["type"] = "history"
        elif n.kind == "hist_deep":
            d["type"] = "history"
            d["history"] = "deep"
        if n.kind in ("compound", "parallel"):
            d["states"] = {self.nodes[c].key: self.node_json(c, opts) for c in n.children}
        if n.initial is not None and n.declared_initial:
            d["initial"] = self.nodes[n.initial].key
        if n.hist_default is not None:
            d["target"] = "#" + self.sid(n.hist_default)
        if n.entry:
            d["entry"] = [self.act_json(a) for a in n.entry]
        if n.exit:
            d["exit"] = [self.act_json(a) for a in n.exit]
        if n.output is not None:
            d["output"] = n.output
        on = {}
        for key, ts in n.on:
            if any(t.forbidden for t in ts):
                # a forbidden bucket is a single null entry
                on[key] = None
            else:
                on[key] = [self.trans_json(t, opts.get("gspell", 0), opts.get("cond", False)) for t in ts]
        if on:
            d["on"] = on
        if n.ondone:
            d["onDone"] = self.trans_json(n.ondone, opts.get("gspell", 0))
        if n.after:
            d["after"] = {delay: [self.trans_json(t) for t in ts] for delay, ts in n.after}
        if n.invoke:
            d["invoke"] = [dict(id=inv.iid, src=("svc%d_%s" % (inv.src, inv.iid.replace(".", "_")) if inv.src else "svc_missing"),
                                onDone=[self.trans_json(t) for t in inv.ondone],
                                onError=[self.trans_json(t) for t in inv.onerror]) for inv in n.invoke]
        return d

    def to_config(self, **opts):
        d = self.node_json(0, opts)
        d["id"] = self.root_id
        d["context"] = dict(opts.get("context") or {})
        if self.max_iter != 1000:
            d["maxIterations"] = self.max_iter
        if self.output is not None:
            d["output"] = self.output
        return d

    # ---- rendering: Gallina term ----
    def guard_coq(self, g):
        k = g[0]
        if k == "ge":
            return "(GCtxGe %d (%d)%%Z)" % (g[1], g[2])
        if k == "pz":
            return "(GCtxGe 0 (%d)%%Z)" % g[1]
        if k == "raises":
            return "(GRaises %d)" % g[1]
        if k == "missing":
            return "(GMissing %d)" % g[1]
        if k == "in":
            return "(GStateIn %s)" % cq(g[1])
        if k == "and":
            return "(GAnd %s)" % cl(self.guard_coq(x) for x in g[1])
        if k == "or":
            return "(GOr %s)" % cl(self.guard_coq(x) for x in g[1])
        if k == "not":
            return "(GNot %s)" % self.guard_coq(g[1])
        raise ValueError(g)

    @staticmethod
    def act_coq(a):
        k = a[0]
        if k == "mark":
            return "AMark %d" % a[1]
        if k == "fail":
            return "AFail %d" % a[1]
        if k == "missing":
            return "AMissing %d" % a[1]
        if k == "assign":
            return "AAssign %d (%d)%%Z" % (a[1], a[2])
        if k == "raise":
            return "ARaise %s %d" % (cq(a[1]), a[2])
        if k == "bad":
            return "ABadBuiltin %d" % a[1]
        if k == "emit":
            return "AEmit %d" % a[1]
        if k == "slow":
            return "ASlow %d %d" % (a[1], a[2])
        if k == "del":
            return "ADel %d %d" % (a[1], a[2])
        raise ValueError(a)

    def trans_coq(self, t):
        tgt = "TNone" if t.target is None else ("TUnresolvable" if t.target == "UNRES" else "(TState %d)" % t.target)
        g = "None" if t.guard is None else "(Some %s)" % self.guard_coq(t.guard)
        return "(mkT %d %d %s %s %s %s %s %s)" % (
            t.tid, t.src, cq(t.event), tgt, g, cl(self.act_coq(a) for a in t.actions),
            "true" if t.reenter else "false", "true" if t.forbidden else "false")

    def node_coq(self, i):
        n = self.nodes[i]
        kind = {"atomic": "KAtomic", "compound": "KCompound", "parallel": "KParallel", "final": "KFinal",
                "hist_shallow": "(KHistory false)", "hist_deep": "(KHistory true)"}[n.kind]
        opt = lambda x: "None" if x is None else "(Some %d)" % x
        optz = lambda x: "None" if x is None else "(Some (%d)%%Z)" % x
        on = cl("(%s, %s)" % (cq(k), cl(self.trans_coq(t) for t in ts)) for k, ts in n.on)
        after = cl("(%d, %s)" % (int(d), cl(self.trans_coq(t) for t in ts)) for d, ts in n.after)
        inv = cl("(mkI %s %d %s %s %d %s (%d)%%Z %s)" % (cq(v.iid), v.src, cl(self.trans_coq(t) for t in v.ondone),
                                                         cl(self.trans_coq(t) for t in v.onerror), v.dur,
                                                         "true" if v.ok else "false", v.val,
                                                         "true" if v.machine else "false") for v in n.invoke)
        ondone = "None" if n.ondone is None else "(Some %s)" % self.trans_coq(n.ondone)
        return "(mkN %s %s %s %s %s %d %s %s %s %s %s %s %s %s)" % (
            cq(self.sid(i)), opt(n.parent), kind, cl(str(c) for c in n.children), opt(n.initial), self.depth(i),
            cl(self.act_coq(a) for a in n.entry), cl(self.act_coq(a) for a in n.exit), on, ondone, after, inv,
            opt(n.hist_default), optz(n.output))

    def to_coq(self):
        optz = lambda x: "None" if x is None else "(Some (%d)%%Z)" % x
        return "(mkM %s %d %s)" % (cl(self.node_coq(i) for i in range(len(self.nodes))), self.max_iter, optz(self.output))


class BadParams:
    """`params` callable of a built-in action that raises (ABadBuiltin k)."""

    def __init__(self, k):
        self.k = k

    def __call__(self, args):
        raise RuntimeError("bad params %d" % self.k)


def op_coq(op):
    """an operation: one event tuple (send) or ('burst', [events]) (send_events)"""
    if op[0] == "burst":
        return "(0, %s)" % cl(ev_coq(e) for e in op[1])
    if op[0] == "at":
        return "(%d, %s)" % (op[1], cl(ev_coq(e) for e in op[2]))
    return "(0, %s)" % cl([ev_coq(op)])


def ev_coq(ev):
    """ev = (type, kind, tag); kind = 'plain' | 'after' | ('done', src)"""
    ty, kind, tag = ev
    k = "EPlain" if kind == "plain" else ("EAfter" if kind == "after" else "(EDone %s)" % cq(kind[1]))
    return "(mkE %s %s %d)" % (cq(ty), k, tag)


# --------------------------------------------------------------------------
# tree shapes
# --------------------------------------------------------------------------

def shapes(n):
    """Ordered rooted trees with exactly n nodes, as nested tuples of children."""
    if n == 1:
        return [()]
    out = []
    # forests of n-1 nodes
    def forests(k):
        if k == 0:
            return [()]
        res = []
        for first in range(1, k + 1):
            for t in shapes(first):
                for rest in forests(k - first):
                    res.append((t,) + rest)
        return res
    return forests(n - 1)


def build_tree(shape, kinds_iter, keys=("a", "ab", "b", "abc", "ba", "c")):
    """Assign indices in DFS pre-order; kinds chosen by the caller via kinds_iter(node_is_leaf, is_root)."""
    nodes = []

    def rec(sh, parent, key):
        idx = len(nodes)
        n = Node(idx=idx, key=key, parent=parent, kind="atomic")
        nodes.append(n)
        for j, c in enumerate(sh):
            ci = rec(c, idx, keys[j])
            n.children.append(ci)
        return idx
    rec(shape, None, "m")
    return nodes


LEAF_KINDS = ("atomic", "final", "hist_shallow", "hist_deep")
INNER_KINDS = ("compound", "parallel")


def enumerate_trees(max_nodes, leaf_kinds=LEAF_KINDS, all_initials=True):
    """Every tree shape with <= max_nodes nodes x every kind assignment x every
    choice of initial child.  History only as a non-root leaf.  Yields lists of Node."""
    for n in range(2, max_nodes + 1):
        for sh in shapes(n):
            base = build_tree(sh, None)
            inner = [x.idx for x in base if x.children]
            leaf = [x.idx for x in base if not x.children]
            for ik in itertools.product(INNER_KINDS, repeat=len(inner)):
                for lk in itertools.product(leaf_kinds, repeat=len(leaf)):
                    kinds = dict(zip(inner, ik))
                    kinds.update(zip(leaf, lk))
                    if kinds[0].startswith("hist") or (n == 1 and kinds[0] != "atomic"):
                        continue
                    comp = [i for i in inner if kinds[i] == "compound"]
                    choices = []
                    ok = True
                    for i in comp:
                        cands = [c for c in base[i].children if not kinds[c].startswith("hist")]
                        if not cands:
                            ok = False
                            break
                        choices.append(cands if all_initials else cands[:1])
                    if not ok:
                        continue
                    # a parallel state needs at least one real region to be enterable sensibly; keep all anyway
                    for inits in itertools.product(*choices):
                        nodes = build_tree(sh, None)
                        for x in nodes:
                            x.kind = kinds[x.idx]
                        for i, c in zip(comp, inits):
                            nodes[i].initial = c
                        yield nodes


def add_marks(nodes, start=1):
    """entry mark 2i+start, exit mark 2i+start+1 on node i"""
    for x in nodes:
        if not x.kind.startswith("hist"):
            x.entry = [("mark", 100 + 2 * x.idx)]
            x.exit = [("mark", 101 + 2 * x.idx)]


def add_all_pairs(am: AM, reenter_variants=True):
    """One transition per ordered (src, tgt) pair on event 't<src>_<tgt>' (plus a
    reenter variant 'r<src>_<tgt>' for self/ancestor/descendant pairs), each with a marker action."""
    tid = 1
    for s, n in enumerate(am.nodes):
        if n.kind.startswith("hist"):
            continue
        for t in range(len(am.nodes)):
            n.on.append(("t%d_%d" % (s, t), [Trans(tid, s, "t%d_%d" % (s, t), t, actions=[("mark", 1000 + tid)])]))
            tid += 1
            if reenter_variants and s == t:
                n.on.append(("r%d_%d" % (s, t), [Trans(tid, s, "r%d_%d" % (s, t), t, reenter=True,
                                                       actions=[("mark", 1000 + tid)])]))
                tid += 1
    return am


# --------------------------------------------------------------------------
# random machines
# --------------------------------------------------------------------------

def random_machine(rng: random.Random, max_nodes=10, max_depth=4, features=None):
    f = dict(history=True, final=True, parallel=True, guards=True, raises=True, always=True, ondone=True,
             faults=False, forbidden=True, wildcard=True, assign=True, badtarget=False, max_iter=None, delete=False)
    f.update(features or {})
    nodes = [Node(0, "m", None, "compound")]
    keys = ("a", "ab", "b", "ba", "abc", "c", "ca", "d")
    target_n = rng.randint(3, max_nodes)

    def depth(i):
        d = 0
        while nodes[i].parent is not None:
            i = nodes[i].parent
            d += 1
        return d
    while len(nodes) < target_n:
        inner = [x for x in nodes if x.kind in ("compound", "parallel") and depth(x.idx) < max_depth and len(x.children) < 4]
        if not inner:
            break
        p = rng.choice(inner)
        idx = len(nodes)
        kind = rng.choices(["atomic", "compound", "parallel", "final", "hist_shallow", "hist_deep"],
                           [5, 4, 2 if f["parallel"] else 0, 2 if f["final"] else 0,
                            1 if f["history"] else 0, 1 if f["history"] else 0])[0]
        if p.kind == "parallel" and kind == "final":
            kind = "compound"
        nodes.append(Node(idx, keys[len(p.children)], p.idx, kind))
        p.children.append(idx)
    # renumber in DFS pre-order
    order = []

    def dfs(i):
        order.append(i)
        for c in nodes[i].children:
            dfs(c)
    dfs(0)
    remap = {old: new for new, old in enumerate(order)}
    new_nodes = []
    for old in order:
        x = nodes[old]
        new_nodes.append(Node(remap[old], x.key, None if x.parent is None else remap[x.parent], x.kind,
                              [remap[c] for c in x.children]))
    nodes = new_nodes
    for x in nodes:
        if x.kind in ("compound", "parallel") and not x.children:
            x.kind = "atomic"
    for x in nodes:
        if x.kind == "compound":
            cands = [c for c in x.children if not nodes[c].kind.startswith("hist")]
            if not cands:
                # only history children: turn the first into an atomic state
                nodes[x.children[0]].kind = "atomic"
                cands = [x.children[0]]
            x.initial = rng.choice(cands)
            if len(cands) == 1 and rng.random() < 0.3:
                x.declared_initial = False
        if x.kind == "parallel":
            if all(nodes[c].kind.startswith("hist") for c in x.children):
                nodes[x.children[0]].kind = "atomic"
    am = AM(nodes)
    am.max_iter = f["max_iter"] or rng.choice([4, 6, 9, 12])
    real = [x.idx for x in nodes if not x.kind.startswith("hist")]
    events = ["E%d" % i for i in range(rng.randint(2, 5))]
    if f["wildcard"]:
        events += ["a.b", "a.c"]
    mark = itertools.count(1)
    tid = itertools.count(1)

    def rand_guard(depth=0):
        r = rng.random()
        if depth < 2 and r < 0.25:
            k = rng.choice(["and", "or", "not"])
            if k == "not":
                return ("not", rand_guard(depth + 1))
            return (k, [rand_guard(depth + 1) for _ in range(rng.randint(1, 3))])
        if r < 0.7:
            return ("ge", rng.randint(0, 2), rng.randint(0, 2))
        if r < 0.8 and f["raises"]:
            return ("raises", next(mark))
        if r < 0.83 and f["faults"]:
            return ("missing", next(mark))
        tgt = rng.choice(real)
        sid = am.sid(tgt)
        return ("in", rng.choice([sid, "#" + sid, sid.split(".", 1)[-1] if "." in sid else sid]))

    def rand_actions():
        out = []
        for _ in range(rng.choice([0, 1, 1, 2, 3])):
            r = rng.random()
            if r < 0.55:
                out.append(("mark", next(mark)))
            elif r < 0.62 and f["delete"]:
                out.append(("del", next(mark), rng.randint(0, 2)))
            elif r < 0.75 and f["assign"]:
                out.append(("assign", rng.randint(0, 2), rng.randint(0, 3)))
            elif r < 0.83 and f["raises"]:
                out.append(("raise", rng.choice(events), rng.randint(1, 9)))
            elif f["faults"]:
                out.append(rng.choice([("fail", next(mark)), ("fail", next(mark)), ("bad", next(mark)), ("missing", next(mark)),
                                       ("emit", next(mark)), ("emit", next(mark))]))
            else:
                out.append(("mark", next(mark)))
        return out

    def rand_target(src):
        r = rng.random()
        if r < 0.12:
            return None
        if r < 0.14 and f["badtarget"]:
            return "UNRES"
        cands = [x.idx for x in nodes if x.idx != 0]
        return rng.choice(cands) if cands else None

    def rand_trans(src, event):
        t = Trans(next(tid), src, event, rand_target(src))
        if f["guards"] and rng.random() < 0.45:
            t.guard = rand_guard()
        t.actions = rand_actions()
        if t.target is not None and t.target != "UNRES" and (t.target == src or am.is_desc(src, t.target) or am.is_desc(t.target, src)):
            t.reenter = rng.random() < 0.5
        return t

    for x in nodes:
        if x.kind.startswith("hist"):
            if rng.random() < 0.4:
                sibs = [c for c in nodes[x.parent].children if not nodes[c].kind.startswith("hist")]
                if sibs:
                    x.hist_default = rng.choice(sibs)
            continue
        if rng.random() < 0.6:
            x.entry = rand_actions()
        if rng.random() < 0.5:
            x.exit = rand_actions()
        if x.kind == "final":
            if rng.random() < 0.5:
                x.output = rng.randint(1, 9)
            continue
        keys_here = []
        for e in rng.sample(events, rng.randint(0, min(3, len(events)))):
            keys_here.append(e)
        if f["wildcard"] and rng.random() < 0.25:
            keys_here.append(rng.choice(["*", "a.*"]))
        for e in keys_here:
            if f["forbidden"] and rng.random() < 0.06:
                x.on.append((e, [Trans(next(tid), x.idx, e, None, forbidden=True)]))
            else:
                x.on.append((e, [rand_trans(x.idx, e) for _ in range(rng.choice([1, 1, 2, 3]))]))
        if f["always"] and rng.random() < 0.15:
            ts = []
            for _ in range(rng.choice([1, 2])):
                t = rand_trans(x.idx, "")
                if t.guard is None and rng.random() < 0.8:
                    t.guard = ("ge", rng.randint(0, 2), rng.randint(1, 3))
                ts.append(t)
            x.on.append(("", ts))
        if f["ondone"] and x.kind in ("compound", "parallel") and x.idx != 0 and rng.random() < 0.5:
            x.ondone = rand_trans(x.idx, "done.state." + am.sid(x.idx))
            if not am.trans_json(x.ondone):
                x.ondone = None   # an empty onDone object is "no onDone" to the parser
    if rng.random() < 0.3:
        am.output = rng.randint(10, 19)
    return am, events
